import UtilModel.Model.GoJson
import UtilModel.Lemmas.Dec
/-!
# Tokenizer lemmas for the `encoding/json` decoder model on escape-free strings and canonical numbers
-/
namespace U.GoJson
open U

/-- the rest of the input cannot continue a number literal -/
def stopsNumber : Bytes → Bool
  | [] => true
  | x :: _ => !isDigit x && x != 46 && x != 101 && x != 69

theorem spanDigits_append (ds r : Bytes) (hd : allDigits ds = true) (hr : stopsNumber r = true) :
    spanDigits (ds ++ r) = (ds, r) := by
  induction ds with
  | nil =>
    cases r with
    | nil => rfl
    | cons x t =>
      simp only [stopsNumber, Bool.and_eq_true, Bool.not_eq_true'] at hr
      simp [spanDigits, hr.1.1.1]
  | cons d ds ih =>
    simp only [allDigits, List.all_cons, Bool.and_eq_true] at hd
    simp only [List.cons_append, spanDigits, hd.1, if_true, ih (by simpa [allDigits] using hd.2)]

/-- a non-empty digit string without a superfluous leading zero, followed by something that is not
part of a number, is scanned as exactly that literal -/
theorem scanNumber_nonzero (c : Nat) (t r : Bytes) (hc : isDigit c = true) (hc0 : c ≠ 48)
    (ht : allDigits t = true) (hr : stopsNumber r = true) :
    scanNumber (c :: t ++ r) = .ok (c :: t, r) := by
  have hc' : 48 ≤ c ∧ c ≤ 57 := by simpa [isDigit] using hc
  have h45 : c ≠ 45 := by omega
  have hspan := spanDigits_append t r ht hr
  have hcases : c = 49 ∨ c = 50 ∨ c = 51 ∨ c = 52 ∨ c = 53 ∨ c = 54 ∨ c = 55 ∨ c = 56 ∨ c = 57 := by omega
  cases r with
  | nil =>
    simp only [List.append_nil] at hspan ⊢
    rcases hcases with rfl | rfl | rfl | rfl | rfl | rfl | rfl | rfl | rfl <;>
      simp [scanNumber, hspan, isDigit]
  | cons x r' =>
    simp only [stopsNumber, Bool.and_eq_true, Bool.not_eq_true', bne_iff_ne] at hr
    obtain ⟨⟨⟨hx1, hx2⟩, hx3⟩, hx4⟩ := hr
    rcases hcases with rfl | rfl | rfl | rfl | rfl | rfl | rfl | rfl | rfl <;>
      simp [scanNumber, hspan, isDigit, hx2, hx3, hx4]

theorem scanNumber_zero (r : Bytes) (hr : stopsNumber r = true) : scanNumber (48 :: r) = .ok ([48], r) := by
  cases r with
  | nil => simp [scanNumber]
  | cons x r' =>
    simp only [stopsNumber, Bool.and_eq_true, Bool.not_eq_true', bne_iff_ne] at hr
    obtain ⟨⟨⟨hx1, hx2⟩, hx3⟩, hx4⟩ := hr
    simp [scanNumber, hx2, hx3, hx4]

/-- shape of a canonical decimal literal: non-empty, digits only, no leading zero unless it is `0` -/
def Canon (ds : Bytes) : Prop :=
  ds = [48] ∨ ∃ c t, ds = c :: t ∧ isDigit c = true ∧ c ≠ 48 ∧ allDigits t = true

theorem Canon.allDigits {ds : Bytes} (h : Canon ds) : allDigits ds = true := by
  rcases h with rfl | ⟨c, t, rfl, hc, _, ht⟩
  · decide
  · simp only [U.allDigits, List.all_cons, Bool.and_eq_true] at ht ⊢; exact ⟨hc, ht⟩

theorem Canon.head {ds : Bytes} (h : Canon ds) : ∃ c t, ds = c :: t ∧ isDigit c = true := by
  rcases h with rfl | ⟨c, t, rfl, hc, _, _⟩
  · exact ⟨48, [], rfl, by decide⟩
  · exact ⟨c, t, rfl, hc⟩

theorem scanNumber_canon (ds r : Bytes) (h : Canon ds) (hr : stopsNumber r = true) :
    scanNumber (ds ++ r) = .ok (ds, r) := by
  rcases h with rfl | ⟨c, t, rfl, hc, h0, ht⟩
  · exact scanNumber_zero r hr
  · exact scanNumber_nonzero c t r hc h0 ht hr

/-! ## strings without escapes -/

/-- printable ASCII other than `"` and `\` -/
def plainByte (c : Nat) : Bool := 32 ≤ c && c < 128 && c != 34 && c != 92

theorem scanString_plain (body rest acc : Bytes) (hb : body.all plainByte = true) :
    scanString (body ++ 34 :: rest) acc = .ok (acc.reverse ++ body, rest) := by
  induction body generalizing acc with
  | nil => simp [scanString]
  | cons c t ih =>
    simp only [List.all_cons, Bool.and_eq_true] at hb
    have hc := hb.1
    simp only [plainByte, Bool.and_eq_true, decide_eq_true_eq, bne_iff_ne] at hc
    obtain ⟨⟨⟨h32, _⟩, h34⟩, h92⟩ := hc
    have step : scanString (c :: (t ++ 34 :: rest)) acc = scanString (t ++ 34 :: rest) (c :: acc) := by
      rw [scanString.eq_7 _ _ _ h34 h92, if_neg (by omega)]
    rw [List.cons_append, step, ih _ hb.2]
    simp

theorem unquoteF_plain (f : Nat) (body : Bytes) (hb : body.all plainByte = true) (hf : body.length ≤ f) :
    unquoteF f body = body := by
  induction body generalizing f with
  | nil => cases f <;> simp [unquoteF]
  | cons c t ih =>
    cases f with
    | zero => simp at hf
    | succ f =>
      simp only [List.all_cons, Bool.and_eq_true] at hb
      have hc := hb.1
      simp only [plainByte, Bool.and_eq_true, decide_eq_true_eq, bne_iff_ne] at hc
      obtain ⟨⟨⟨h32, h128⟩, h34⟩, h92⟩ := hc
      rw [unquoteF.eq_6 _ _ _ (fun _ _ _ _ _ h _ => h92 h) (fun _ _ h _ => h92 h), if_pos h128,
        ih f hb.2 (by simpa using hf)]

theorem unquote_plain (body : Bytes) (hb : body.all plainByte = true) : unquote body = body :=
  unquoteF_plain _ body hb (by omega)

/-! ## scalars -/

theorem scanScalar_str (body rest : Bytes) (hb : body.all plainByte = true) :
    scanScalar (34 :: (body ++ 34 :: rest)) = .ok (.str body, rest) := by
  simp only [scanScalar, scanString_plain body rest [] hb, List.reverse_nil, List.nil_append,
    unquote_plain body hb]

theorem scanScalar_num (ds r : Bytes) (h : Canon ds) (hr : stopsNumber r = true) :
    scanScalar (ds ++ r) = .ok (.num ds, r) := by
  obtain ⟨c, t, rfl, hc⟩ := h.head
  have hn := scanNumber_canon _ r h hr
  have hc' : 48 ≤ c ∧ c ≤ 57 := by simpa [isDigit] using hc
  simp only [List.cons_append] at hn ⊢
  unfold scanScalar
  split
  · rename_i heq; simp at heq
  · rename_i heq; simp at heq; omega
  · rename_i heq; simp at heq; omega
  · rename_i heq; simp at heq; omega
  · rename_i heq; simp at heq; omega
  · rename_i c' t' _ _ _ _ heq
    simp only [List.cons.injEq] at heq
    obtain ⟨rfl, rfl⟩ := heq
    simp only [hc, Bool.or_true, if_true, hn]

/-! ## `Token` on the shapes that occur in marshalled sizes -/

theorem skipSpace_cons (c : Nat) (t : Bytes) (h : isSpace c = false) : skipSpace (c :: t) = c :: t := by
  simp [skipSpace, h]

theorem token_eof (st : TState) (stk : List TState) : (⟨[], st, stk⟩ : Dec).token = .error .eof := by
  simp [Dec.token, tokenF, skipSpace]

theorem tokenF_open (f : Nat) (t : Bytes) (st : TState) (stk : List TState) (h : valueAllowed st = true) :
    tokenF (f + 1) ⟨123 :: t, st, stk⟩ = .ok (.delim 123, ⟨t, .objectStart, st :: stk⟩) := by
  simp [tokenF, skipSpace, isSpace, h]

theorem tokenF_close (f : Nat) (t : Bytes) (p : TState) (ps : List TState) :
    tokenF (f + 1) ⟨125 :: t, .objectComma, p :: ps⟩ = .ok (.delim 125, ⟨t, valueEnd p, ps⟩) := by
  simp [tokenF, skipSpace, isSpace]

theorem tokenF_colon (f : Nat) (t : Bytes) (stk : List TState) :
    tokenF (f + 1) ⟨58 :: t, .objectColon, stk⟩ = tokenF f ⟨t, .objectValue, stk⟩ := by
  simp [tokenF, skipSpace, isSpace]

theorem tokenF_comma (f : Nat) (t : Bytes) (stk : List TState) :
    tokenF (f + 1) ⟨44 :: t, .objectComma, stk⟩ = tokenF f ⟨t, .objectKey, stk⟩ := by
  simp [tokenF, skipSpace, isSpace]

/-- a string where a member key is expected -/
theorem tokenF_key (f : Nat) (body rest : Bytes) (st : TState) (stk : List TState)
    (hst : st = .objectStart ∨ st = .objectKey) (hb : body.all plainByte = true) :
    tokenF (f + 1) ⟨34 :: (body ++ 34 :: rest), st, stk⟩ = .ok (.str body, ⟨rest, .objectColon, stk⟩) := by
  have h := scanScalar_str body rest hb
  rcases hst with rfl | rfl <;> simp [tokenF, skipSpace, isSpace, h]

/-- a string where a value is expected -/
theorem tokenF_str (f : Nat) (body rest : Bytes) (st : TState) (stk : List TState)
    (hst : valueAllowed st = true) (hb : body.all plainByte = true) :
    tokenF (f + 1) ⟨34 :: (body ++ 34 :: rest), st, stk⟩ = .ok (.str body, ⟨rest, valueEnd st, stk⟩) := by
  have h := scanScalar_str body rest hb
  cases st <;> simp [valueAllowed] at hst <;> simp [tokenF, skipSpace, isSpace, h, valueAllowed]

/-- a canonical number where a value is expected -/
theorem tokenF_num (f : Nat) (ds rest : Bytes) (st : TState) (stk : List TState)
    (hst : valueAllowed st = true) (h : Canon ds) (hr : stopsNumber rest = true) :
    tokenF (f + 1) ⟨ds ++ rest, st, stk⟩ = .ok (.num ds, ⟨rest, valueEnd st, stk⟩) := by
  have hs := scanScalar_num ds rest h hr
  obtain ⟨c, t, rfl, hc⟩ := h.head
  have hc' : 48 ≤ c ∧ c ≤ 57 := by simpa [isDigit] using hc
  simp only [List.cons_append] at hs ⊢
  have hsp : isSpace c = false := by
    simp only [isSpace, Bool.or_eq_false_iff, beq_eq_false_iff_ne]; omega
  simp only [tokenF, skipSpace_cons c _ hsp, hst]
  have : (c == 91) = false ∧ (c == 93) = false ∧ (c == 123) = false ∧ (c == 125) = false ∧
      (c == 58) = false ∧ (c == 44) = false ∧ (c == 34) = false := by
    simp only [beq_eq_false_iff_ne]; omega
  obtain ⟨h1, h2, h3, h4, h5, h6, h7⟩ := this
  simp [h1, h2, h3, h4, h5, h6, h7, hs]

/-! ## `Dec.token` / `Dec.more` with the decoder's own fuel -/

theorem token_open (t : Bytes) (st : TState) (stk : List TState) (h : valueAllowed st = true) :
    (⟨123 :: t, st, stk⟩ : Dec).token = .ok (.delim 123, ⟨t, .objectStart, st :: stk⟩) :=
  tokenF_open _ t st stk h

theorem token_close (t : Bytes) (p : TState) (ps : List TState) :
    (⟨125 :: t, .objectComma, p :: ps⟩ : Dec).token = .ok (.delim 125, ⟨t, valueEnd p, ps⟩) :=
  tokenF_close _ t p ps

theorem token_key (body rest : Bytes) (stk : List TState) (hb : body.all plainByte = true) :
    (⟨34 :: (body ++ 34 :: rest), .objectStart, stk⟩ : Dec).token = .ok (.str body, ⟨rest, .objectColon, stk⟩) :=
  tokenF_key _ body rest _ stk (Or.inl rfl) hb

theorem token_comma_key (body rest : Bytes) (stk : List TState) (hb : body.all plainByte = true) :
    (⟨44 :: 34 :: (body ++ 34 :: rest), .objectComma, stk⟩ : Dec).token = .ok (.str body, ⟨rest, .objectColon, stk⟩) := by
  unfold Dec.token
  simp only [List.length_cons]
  rw [tokenF_comma]
  exact tokenF_key _ body rest _ stk (Or.inr rfl) hb

theorem token_colon_num (ds rest : Bytes) (stk : List TState) (h : Canon ds) (hr : stopsNumber rest = true) :
    (⟨58 :: (ds ++ rest), .objectColon, stk⟩ : Dec).token = .ok (.num ds, ⟨rest, .objectComma, stk⟩) := by
  unfold Dec.token
  simp only [List.length_cons]
  rw [tokenF_colon]
  exact tokenF_num _ ds rest _ stk rfl h hr

theorem token_colon_str (body rest : Bytes) (stk : List TState) (hb : body.all plainByte = true) :
    (⟨58 :: 34 :: (body ++ 34 :: rest), .objectColon, stk⟩ : Dec).token = .ok (.str body, ⟨rest, .objectComma, stk⟩) := by
  unfold Dec.token
  simp only [List.length_cons]
  rw [tokenF_colon]
  exact tokenF_str _ body rest _ stk rfl hb

theorem more_cons (c : Nat) (t : Bytes) (st : TState) (stk : List TState) (h : isSpace c = false) :
    (⟨c :: t, st, stk⟩ : Dec).more = (c != 93 && c != 125) := by
  simp [Dec.more, skipSpace_cons c t h]

end U.GoJson
