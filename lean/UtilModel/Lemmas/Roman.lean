import UtilModel.Model.Roman
/-! # Roman numerals: case-insensitivity, soundness and completeness of the scanner, closed form of the parser -/
namespace U.Roman
open U

/-- ASCII upper-casing of a text -/
def up (s : Bytes) : Bytes := s.map toUpperAscii

/-- a capital ASCII letter -/
abbrev Cap (u : Nat) : Prop := 65 ≤ u ∧ u ≤ 90

theorem up_nil : up [] = [] := rfl
theorem up_cons (c : Nat) (s : Bytes) : up (c :: s) = toUpperAscii c :: up s := rfl
theorem up_append (a b : Bytes) : up (a ++ b) = up a ++ up b := by simp [up]
theorem up_length (s : Bytes) : (up s).length = s.length := by simp [up]
theorem up_eq_nil {s : Bytes} : up s = [] ↔ s = [] := by simp [up]

theorem eqCI_iff (c u : Nat) : eqCI c u = true ↔ c = u ∨ c = u + 32 := by
  simp [eqCI]

theorem eqCI_upper (c u : Nat) (hu : Cap u) : eqCI (toUpperAscii c) u = eqCI c u := by
  obtain ⟨h1, h2⟩ := hu
  rw [Bool.eq_iff_iff, eqCI_iff, eqCI_iff]
  unfold toUpperAscii isLower
  split
  · rename_i h
    simp only [Bool.and_eq_true, decide_eq_true_eq] at h
    omega
  · rename_i h
    simp only [Bool.and_eq_true, decide_eq_true_eq] at h
    omega

theorem upper_of_eqCI {c u : Nat} (hu : Cap u) (h : eqCI c u = true) : toUpperAscii c = u := by
  obtain ⟨h1, h2⟩ := hu
  rw [eqCI_iff] at h
  unfold toUpperAscii isLower
  split
  · rename_i h'
    simp only [Bool.and_eq_true, decide_eq_true_eq] at h'
    omega
  · rename_i h'
    simp only [Bool.and_eq_true, decide_eq_true_eq] at h'
    omega

theorem spanCI_up (u : Nat) (hu : Cap u) (s : Bytes) :
    spanCI u (up s) = (up (spanCI u s).1, up (spanCI u s).2) := by
  induction s with
  | nil => rfl
  | cons c t ih =>
    simp only [up_cons, spanCI, eqCI_upper c u hu]
    split
    · simp only [ih, up_cons]
    · simp only [up_nil, up_cons]


/-- additive alternative `F?O{0,4}` of `scanGroup` -/
def scanAdd (one five : Nat) (s : Bytes) : Option (Bytes × Bytes) :=
  let fr : Bytes × Bytes := match s with
    | a :: t => if eqCI a five then ([a], t) else ([], s)
    | [] => ([], [])
  let p := spanCI one fr.2
  if p.1.length ≤ 4 then some (fr.1 ++ p.1, p.2) else none

theorem scanGroup_eq (one five ten : Nat) (s : Bytes) :
    scanGroup one five ten s =
      match s with
      | a :: b :: t => if eqCI a one && (eqCI b five || eqCI b ten) then some ([a, b], t) else scanAdd one five s
      | _ => scanAdd one five s := by
  match s with
  | [] => rfl
  | [a] => simp only [scanGroup, scanAdd]
  | a :: b :: t => simp only [scanGroup, scanAdd]

def upPair (p : Bytes × Bytes) : Bytes × Bytes := (up p.1, up p.2)

theorem scanAdd_up (one five : Nat) (h1 : Cap one) (h5 : Cap five) (s : Bytes) :
    scanAdd one five (up s) = (scanAdd one five s).map upPair := by
  unfold scanAdd
  cases s with
  | nil => simp [up_nil, spanCI, upPair]
  | cons a t =>
    simp only [up_cons, eqCI_upper a five h5]
    split
    · simp only [spanCI_up one h1, up_length]
      split
      · simp [upPair, up_cons]
      · rfl
    · rw [← up_cons]
      simp only [spanCI_up one h1, up_length]
      split
      · simp [upPair]
      · rfl

theorem scanGroup_up (one five ten : Nat) (h1 : Cap one) (h5 : Cap five) (h10 : Cap ten) (s : Bytes) :
    scanGroup one five ten (up s) = (scanGroup one five ten s).map upPair := by
  rw [scanGroup_eq, scanGroup_eq]
  match s with
  | [] => exact scanAdd_up one five h1 h5 []
  | [a] => exact scanAdd_up one five h1 h5 [a]
  | a :: b :: t =>
    simp only [up_cons, eqCI_upper a one h1, eqCI_upper b five h5, eqCI_upper b ten h10]
    split
    · simp [upPair, up_cons, up_nil]
    · rw [← up_cons, ← up_cons]; exact scanAdd_up one five h1 h5 _


theorem cap67 : Cap 67 := by decide
theorem cap68 : Cap 68 := by decide
theorem cap77 : Cap 77 := by decide
theorem cap88 : Cap 88 := by decide
theorem cap76 : Cap 76 := by decide
theorem cap73 : Cap 73 := by decide
theorem cap86 : Cap 86 := by decide

/-- `shape` as a chain of `Option.bind`s -/
theorem shape_eq (s : Bytes) :
    shape s =
      (scanGroup 67 68 77 (spanCI 77 s).2).bind fun p1 =>
      (scanGroup 88 76 67 p1.2).bind fun p2 =>
      (scanGroup 73 86 88 p2.2).bind fun p3 =>
      if p3.2.isEmpty then some ((spanCI 77 s).1, p1.1, p2.1, p3.1) else none := by
  unfold shape
  simp only
  cases scanGroup 67 68 77 (spanCI 77 s).2 with
  | none => rfl
  | some p1 =>
    simp only [Option.bind_some]
    cases scanGroup 88 76 67 p1.2 with
    | none => rfl
    | some p2 =>
      simp only [Option.bind_some]
      cases scanGroup 73 86 88 p2.2 with
      | none => rfl
      | some p3 => rfl

def upQuad (q : Bytes × Bytes × Bytes × Bytes) : Bytes × Bytes × Bytes × Bytes :=
  (up q.1, up q.2.1, up q.2.2.1, up q.2.2.2)

theorem shape_up (s : Bytes) : shape (up s) = (shape s).map upQuad := by
  rw [shape_eq, shape_eq, spanCI_up 77 cap77]
  simp only [scanGroup_up 67 68 77 cap67 cap68 cap77]
  cases scanGroup 67 68 77 (spanCI 77 s).2 with
  | none => rfl
  | some p1 =>
    simp only [Option.map_some, Option.bind_some, upPair, scanGroup_up 88 76 67 cap88 cap76 cap67]
    cases scanGroup 88 76 67 p1.2 with
    | none => rfl
    | some p2 =>
      simp only [Option.map_some, Option.bind_some, upPair, scanGroup_up 73 86 88 cap73 cap86 cap88]
      cases scanGroup 73 86 88 p2.2 with
      | none => rfl
      | some p3 =>
        simp only [Option.map_some, Option.bind_some, upPair]
        have : (up p3.2).isEmpty = p3.2.isEmpty := by
          cases p3.2 <;> rfl
        rw [this]
        split <;> rfl

theorem parseGroup_up (g : Bytes) (unit d5 d10 : Nat) (h5 : Cap d5) (h10 : Cap d10) :
    parseGroup (up g) unit d5 d10 = parseGroup g unit d5 d10 := by
  unfold parseGroup
  simp only [up_length]
  match g with
  | [] => rfl
  | [a] => simp [up_cons, up_nil, eqCI_upper a d5 h5]
  | a :: b :: t => simp [up_cons, eqCI_upper a d5 h5, eqCI_upper b d5 h5, eqCI_upper b d10 h10]

theorem checkInputLength_up (maxLen : Nat) (de : Bool) (s : Bytes) :
    checkInputLength maxLen de (up s) = checkInputLength maxLen de s := by
  simp only [checkInputLength, up_length]

theorem sumGroups_up (h t u : Bytes) (acc : Nat) :
    sumGroups Gen.roman_groups [up h, up t, up u] acc = sumGroups Gen.roman_groups [h, t, u] acc := by
  simp only [Gen.roman_groups, sumGroups, parseGroup_up _ _ _ _ cap68 cap77, parseGroup_up _ _ _ _ cap76 cap67,
    parseGroup_up _ _ _ _ cap86 cap88]

theorem parse_up (maxLen : Nat) (de : Bool) (s : Bytes) : parse maxLen de (up s) = parse maxLen de s := by
  unfold parse
  rw [checkInputLength_up, shape_up]
  cases shape s with
  | none => rfl
  | some q =>
    obtain ⟨ms, h, t, u⟩ := q
    simp only [Option.map_some, upQuad, sumGroups_up, up_length]

theorem valid_up (maxLen : Nat) (de : Bool) (s : Bytes) : valid maxLen de (up s) = valid maxLen de s := by
  unfold valid
  rw [checkInputLength_up, shape_up, Option.isSome_map]


/-- the twelve upper-case forms of one decimal-digit group -/
def forms12 (one five ten : Nat) : List Bytes :=
  [[], [one], [one, one], [one, one, one], [one, one, one, one],
   [five], [five, one], [five, one, one], [five, one, one, one], [five, one, one, one, one],
   [one, five], [one, ten]]

/-- digit value of a form -/
def gval (one five ten : Nat) (g : Bytes) : Nat :=
  if g = [one, five] then 4 else if g = [one, ten] then 9 else 5 * g.count five + g.count one

theorem shape_tails :
    ∀ h ∈ forms12 67 68 77, ∀ t ∈ forms12 88 76 67, ∀ u ∈ forms12 73 86 88,
      shape (h ++ t ++ u) = some ([], h, t, u) := by
  decide +kernel

theorem parseGroup_hundreds : ∀ g ∈ forms12 67 68 77, parseGroup g 100 68 77 = .ok (100 * gval 67 68 77 g) := by
  decide
theorem parseGroup_tens : ∀ g ∈ forms12 88 76 67, parseGroup g 10 76 67 = .ok (10 * gval 88 76 67 g) := by
  decide
theorem parseGroup_units : ∀ g ∈ forms12 73 86 88, parseGroup g 1 86 88 = .ok (1 * gval 73 86 88 g) := by
  decide


/-! ## soundness of the scanner -/

theorem spanCI_sound (u : Nat) (s : Bytes) :
    s = (spanCI u s).1 ++ (spanCI u s).2 ∧ ∀ c ∈ (spanCI u s).1, eqCI c u = true := by
  induction s with
  | nil => simp [spanCI]
  | cons c t ih =>
    simp only [spanCI]
    split
    · rename_i hc
      refine ⟨by simp only [List.cons_append]; rw [← ih.1], ?_⟩
      intro x hx
      simp only [List.mem_cons] at hx
      rcases hx with rfl | hx
      · exact hc
      · exact ih.2 x hx
    · simp

theorem up_of_all_eqCI {u : Nat} (hu : Cap u) (a : Bytes) (h : ∀ c ∈ a, eqCI c u = true) :
    up a = List.replicate a.length u := by
  induction a with
  | nil => rfl
  | cons c t ih =>
    simp only [up_cons, List.length_cons, List.replicate_succ]
    rw [upper_of_eqCI hu (h c (by simp)), ih (fun x hx => h x (by simp [hx]))]

theorem spanCI_up_run {u : Nat} (hu : Cap u) (s : Bytes) :
    up (spanCI u s).1 = List.replicate (spanCI u s).1.length u :=
  up_of_all_eqCI hu _ (spanCI_sound u s).2

theorem replicate_le4_mem (one five ten : Nat) (n : Nat) (hn : n ≤ 4) :
    List.replicate n one ∈ forms12 one five ten ∧ five :: List.replicate n one ∈ forms12 one five ten := by
  have : n = 0 ∨ n = 1 ∨ n = 2 ∨ n = 3 ∨ n = 4 := by omega
  rcases this with rfl | rfl | rfl | rfl | rfl <;> simp [forms12, List.replicate]

theorem scanAdd_sound {one five : Nat} (ten : Nat) (h1 : Cap one) (h5 : Cap five) {s g r : Bytes}
    (h : scanAdd one five s = some (g, r)) : s = g ++ r ∧ up g ∈ forms12 one five ten := by
  unfold scanAdd at h
  simp only at h
  split at h
  · rename_i a t
    split at h
    · rename_i ha
      split at h
      · rename_i hlen
        simp only [Option.some.injEq, Prod.mk.injEq] at h
        obtain ⟨rfl, rfl⟩ := h
        refine ⟨by simp only [List.cons_append, List.nil_append]; rw [← (spanCI_sound one t).1], ?_⟩
        rw [up_append, up_cons, up_nil, upper_of_eqCI h5 ha, spanCI_up_run h1]
        exact (replicate_le4_mem one five ten _ hlen).2
      · simp at h
    · split at h
      · rename_i hlen
        simp only [Option.some.injEq, Prod.mk.injEq] at h
        obtain ⟨rfl, rfl⟩ := h
        refine ⟨by simp only [List.nil_append]; rw [← (spanCI_sound one _).1], ?_⟩
        rw [List.nil_append, spanCI_up_run h1]
        exact (replicate_le4_mem one five ten _ hlen).1
      · simp at h
  · simp only [spanCI] at h
    simp only [List.length_nil, Nat.zero_le, if_true, Option.some.injEq, Prod.mk.injEq, List.append_nil] at h
    obtain ⟨rfl, rfl⟩ := h
    simp [forms12, up_nil]

theorem scanGroup_sound {one five ten : Nat} (h1 : Cap one) (h5 : Cap five) (h10 : Cap ten) {s g r : Bytes}
    (h : scanGroup one five ten s = some (g, r)) : s = g ++ r ∧ up g ∈ forms12 one five ten := by
  rw [scanGroup_eq] at h
  split at h
  · rename_i a b t
    split at h
    · rename_i hc
      simp only [Option.some.injEq, Prod.mk.injEq] at h
      obtain ⟨rfl, rfl⟩ := h
      simp only [Bool.and_eq_true, Bool.or_eq_true] at hc
      refine ⟨rfl, ?_⟩
      rw [up_cons, up_cons, up_nil, upper_of_eqCI h1 hc.1]
      rcases hc.2 with hb | hb
      · rw [upper_of_eqCI h5 hb]; simp [forms12]
      · rw [upper_of_eqCI h10 hb]; simp [forms12]
    · exact scanAdd_sound ten h1 h5 h
  · exact scanAdd_sound ten h1 h5 h

theorem shape_sound {s ms h t u : Bytes} (hs : shape s = some (ms, h, t, u)) :
    s = ms ++ h ++ t ++ u ∧ up ms = List.replicate ms.length 77 ∧
      up h ∈ forms12 67 68 77 ∧ up t ∈ forms12 88 76 67 ∧ up u ∈ forms12 73 86 88 := by
  rw [shape_eq] at hs
  have h0 := spanCI_sound 77 s
  have hm := spanCI_up_run cap77 s
  cases e1 : scanGroup 67 68 77 (spanCI 77 s).2 with
  | none => simp [e1] at hs
  | some p1 =>
    obtain ⟨g1, r1⟩ := p1
    simp only [e1, Option.bind_some] at hs
    cases e2 : scanGroup 88 76 67 r1 with
    | none => simp [e2] at hs
    | some p2 =>
      obtain ⟨g2, r2⟩ := p2
      simp only [e2, Option.bind_some] at hs
      cases e3 : scanGroup 73 86 88 r2 with
      | none => simp [e3] at hs
      | some p3 =>
        obtain ⟨g3, r3⟩ := p3
        simp only [e3, Option.bind_some] at hs
        split at hs
        · rename_i he
          simp only [Option.some.injEq, Prod.mk.injEq] at hs
          obtain ⟨rfl, rfl, rfl, rfl⟩ := hs
          have s1 := scanGroup_sound cap67 cap68 cap77 e1
          have s2 := scanGroup_sound cap88 cap76 cap67 e2
          have s3 := scanGroup_sound cap73 cap86 cap88 e3
          have hr3 : r3 = [] := by simpa using he
          subst hr3
          refine ⟨?_, hm, s1.2, s2.2, s3.2⟩
          have e := h0.1
          rw [s1.1, s2.1, s3.1] at e
          simpa [List.append_assoc] using e
        · simp at hs


/-! ## completeness of the scanner on canonical upper-case texts -/

theorem spanCI_replicate (u k : Nat) (r : Bytes) :
    spanCI u (List.replicate k u ++ r) = (List.replicate k u ++ (spanCI u r).1, (spanCI u r).2) := by
  induction k with
  | zero => simp
  | succ k ih =>
    have : eqCI u u = true := by simp [eqCI]
    simp only [List.replicate_succ, List.cons_append, spanCI, this, if_true, ih]

theorem shape_replicate (k : Nat) (r : Bytes) :
    shape (List.replicate k 77 ++ r) = (shape r).map fun q => (List.replicate k 77 ++ q.1, q.2) := by
  rw [shape_eq, shape_eq, spanCI_replicate]
  simp only
  cases scanGroup 67 68 77 (spanCI 77 r).2 with
  | none => rfl
  | some p1 =>
    simp only [Option.bind_some]
    cases scanGroup 88 76 67 p1.2 with
    | none => rfl
    | some p2 =>
      simp only [Option.bind_some]
      cases scanGroup 73 86 88 p2.2 with
      | none => rfl
      | some p3 =>
        simp only [Option.bind_some]
        split <;> rfl

theorem shape_canonical (k : Nat) {h t u : Bytes} (hh : h ∈ forms12 67 68 77) (ht : t ∈ forms12 88 76 67)
    (hu : u ∈ forms12 73 86 88) :
    shape (List.replicate k 77 ++ h ++ t ++ u) = some (List.replicate k 77, h, t, u) := by
  have : List.replicate k 77 ++ h ++ t ++ u = List.replicate k 77 ++ (h ++ t ++ u) := by
    simp only [List.append_assoc]
  rw [this, shape_replicate, shape_tails h hh t ht u hu]
  simp

/-! ## the parser in closed form -/

theorem parseGroup_total (g : Bytes) (unit d5 d10 : Nat) : ∃ v, parseGroup g unit d5 d10 = .ok v := by
  unfold parseGroup
  match g with
  | [] => exact ⟨0, rfl⟩
  | [a] =>
    simp only [List.length_cons, List.length_nil]
    by_cases h : eqCI a d5 = true <;> simp [h]
  | a :: b :: t =>
    simp only [List.length_cons]
    by_cases h : eqCI a d5 = true
    · simp [h]
    · by_cases h1 : eqCI b d5 = true
      · simp [h, h1]
      · by_cases h2 : eqCI b d10 = true <;> simp [h, h1, h2]

/-- value of the three captured groups -/
def groupsValue (k : Nat) (h t u : Bytes) : Nat :=
  1000 * k + 100 * gval 67 68 77 h + 10 * gval 88 76 67 t + gval 73 86 88 u

theorem sumGroups_forms (k : Nat) {h t u : Bytes} (hh : up h ∈ forms12 67 68 77) (ht : up t ∈ forms12 88 76 67)
    (hu : up u ∈ forms12 73 86 88) :
    sumGroups Gen.roman_groups [h, t, u] (k * 1000) = .ok (groupsValue k (up h) (up t) (up u)) := by
  have e1 := parseGroup_hundreds _ hh
  have e2 := parseGroup_tens _ ht
  have e3 := parseGroup_units _ hu
  rw [parseGroup_up _ _ _ _ cap68 cap77] at e1
  rw [parseGroup_up _ _ _ _ cap76 cap67] at e2
  rw [parseGroup_up _ _ _ _ cap86 cap88] at e3
  simp only [Gen.roman_groups, sumGroups, e1, e2, e3, groupsValue]
  congr 1
  omega

/-- length check passed and the text is not empty -/
theorem checkInputLength_ok {maxLen : Nat} (de : Bool) {s : Bytes} (hne : s ≠ [])
    (hlen : maxLen = 0 ∨ s.length ≤ maxLen) : checkInputLength maxLen de s = .ok false := by
  unfold checkInputLength
  have : s.length ≠ 0 := by simpa using hne
  simp only
  rw [if_neg this, if_neg (by omega)]

theorem parse_of_shape {maxLen : Nat} (de : Bool) {s ms h t u : Bytes} (hne : s ≠ [])
    (hlen : maxLen = 0 ∨ s.length ≤ maxLen) (hs : shape s = some (ms, h, t, u)) :
    parse maxLen de s = .ok (groupsValue ms.length (up h) (up t) (up u) % two64) := by
  obtain ⟨_, _, hh, ht, hu⟩ := shape_sound hs
  unfold parse
  rw [checkInputLength_ok de hne hlen]
  simp only [hs, sumGroups_forms ms.length hh ht hu, Outcome.map]

theorem parse_of_no_shape {maxLen : Nat} (de : Bool) {s : Bytes} (hne : s ≠ [])
    (hlen : maxLen = 0 ∨ s.length ≤ maxLen) (hs : shape s = none) :
    parse maxLen de s = .err .invalid := by
  unfold parse
  rw [checkInputLength_ok de hne hlen]
  simp only [hs]

theorem valid_of_nonempty {maxLen : Nat} (de : Bool) {s : Bytes} (hne : s ≠ [])
    (hlen : maxLen = 0 ∨ s.length ≤ maxLen) :
    valid maxLen de s = if (shape s).isSome then .ok () else .err .invalid := by
  unfold valid
  rw [checkInputLength_ok de hne hlen]

/-- **completeness**: a text whose upper-casing is a canonical decomposition parses to the decomposition's value -/
theorem parse_of_decomp {maxLen : Nat} (de : Bool) {s : Bytes} (hne : s ≠ [])
    (hlen : maxLen = 0 ∨ s.length ≤ maxLen) {k : Nat} {h t u : Bytes}
    (hs : up s = List.replicate k 77 ++ h ++ t ++ u)
    (hh : h ∈ forms12 67 68 77) (ht : t ∈ forms12 88 76 67) (hu : u ∈ forms12 73 86 88) :
    parse maxLen de s = .ok (groupsValue k h t u % two64) ∧ valid maxLen de s = .ok () := by
  have hsh := shape_canonical k hh ht hu
  rw [← hs] at hsh
  have hne' : up s ≠ [] := fun e => hne (up_eq_nil.mp e)
  have hlen' : maxLen = 0 ∨ (up s).length ≤ maxLen := by rw [up_length]; exact hlen
  have hup : ∀ g ∈ forms12 67 68 77 ++ forms12 88 76 67 ++ forms12 73 86 88, up g = g := by decide
  constructor
  · rw [← parse_up, parse_of_shape de hne' hlen' hsh, List.length_replicate,
      hup h (by simp [hh]), hup t (by simp [ht]), hup u (by simp [hu])]
  · rw [← valid_up, valid_of_nonempty de hne' hlen', hsh]
    rfl


/-! ## empty and over-long texts; size of the value -/

theorem parse_nil (maxLen : Nat) (de : Bool) :
    parse maxLen de [] = if de then .err .invalid else .ok 0 := by
  cases de <;> rfl

theorem valid_nil (maxLen : Nat) (de : Bool) :
    valid maxLen de [] = if de then .err .invalid else .ok () := by
  cases de <;> rfl

theorem checkInputLength_too_long {maxLen : Nat} (de : Bool) {s : Bytes} (h0 : maxLen ≠ 0) (h : s.length > maxLen) :
    checkInputLength maxLen de s = .err .tooLong := by
  unfold checkInputLength
  simp only
  rw [if_neg (by omega), if_pos ⟨h0, h⟩]

theorem parse_too_long {maxLen : Nat} (de : Bool) {s : Bytes} (h0 : maxLen ≠ 0) (h : s.length > maxLen) :
    parse maxLen de s = .err .tooLong := by
  unfold parse
  rw [checkInputLength_too_long de h0 h]

theorem valid_too_long {maxLen : Nat} (de : Bool) {s : Bytes} (h0 : maxLen ≠ 0) (h : s.length > maxLen) :
    valid maxLen de s = .err .tooLong := by
  unfold valid
  rw [checkInputLength_too_long de h0 h]

theorem gval_le_hundreds : ∀ g ∈ forms12 67 68 77, gval 67 68 77 g ≤ 9 ∧ gval 67 68 77 g ≤ 9 * g.length := by decide
theorem gval_le_tens : ∀ g ∈ forms12 88 76 67, gval 88 76 67 g ≤ 9 ∧ gval 88 76 67 g ≤ 9 * g.length := by decide
theorem gval_le_units : ∀ g ∈ forms12 73 86 88, gval 73 86 88 g ≤ 9 ∧ gval 73 86 88 g ≤ 9 * g.length := by decide

/-- the value of a canonical text is at most 1000 per byte -/
theorem groupsValue_le (k : Nat) {h t u : Bytes} (hh : h ∈ forms12 67 68 77) (ht : t ∈ forms12 88 76 67)
    (hu : u ∈ forms12 73 86 88) :
    groupsValue k h t u ≤ 1000 * (List.replicate k 77 ++ h ++ t ++ u).length := by
  have a := (gval_le_hundreds h hh).2
  have b := (gval_le_tens t ht).2
  have c := (gval_le_units u hu).2
  simp only [groupsValue, List.length_append, List.length_replicate]
  omega


/-! ## the formatter -/

/-- canonical form of one decimal digit: subtractive four and nine unless the long flag asks for the additive form -/
def dform (one five ten : Nat) (long4 long9 : Bool) (d : Nat) : Bytes :=
  if d = 4 ∧ long4 = false then [one, five]
  else if d = 9 ∧ long9 = false then [one, ten]
  else List.replicate (d / 5) five ++ List.replicate (d % 5) one

theorem toGroup_two (e4 e9 : Nat × Nat × Bytes) (table : List Bytes) (d f : Nat) :
    toGroup [e4, e9] table d f =
      if (d == e4.1 && hasFlag f e4.2.1) = true then e4.2.2
      else if (d == e9.1 && hasFlag f e9.2.1) = true then e9.2.2
      else table.getD d [] := by
  simp only [toGroup, List.find?]
  cases (d == e4.1 && hasFlag f e4.2.1) <;> cases (d == e9.1 && hasFlag f e9.2.1) <;> rfl

theorem toHundreds_eq (d f : Nat) (hd : d ≤ 9) :
    toHundreds d f = dform 67 68 77 (hasFlag f Gen.roman_FormatLong400) (hasFlag f Gen.roman_FormatLong900) d := by
  have key : ∀ d < 10, ∀ b4 b9 : Bool,
      (if (d == 4 && b4) = true then [67, 67, 67, 67] else if (d == 9 && b9) = true then [68, 67, 67, 67, 67]
        else Gen.roman_hundreds.getD d []) = dform 67 68 77 b4 b9 d := by decide
  rw [toHundreds, Gen.roman_toHundreds_long, toGroup_two]
  exact key d (by omega) _ _

theorem toTens_eq (d f : Nat) (hd : d ≤ 9) :
    toTens d f = dform 88 76 67 (hasFlag f Gen.roman_FormatLong40) (hasFlag f Gen.roman_FormatLong90) d := by
  have key : ∀ d < 10, ∀ b4 b9 : Bool,
      (if (d == 4 && b4) = true then [88, 88, 88, 88] else if (d == 9 && b9) = true then [76, 88, 88, 88, 88]
        else Gen.roman_tens.getD d []) = dform 88 76 67 b4 b9 d := by decide
  rw [toTens, Gen.roman_toTens_long, toGroup_two]
  exact key d (by omega) _ _

theorem toUnits_eq (d f : Nat) (hd : d ≤ 9) :
    toUnits d f = dform 73 86 88 (hasFlag f Gen.roman_FormatLong4) (hasFlag f Gen.roman_FormatLong9) d := by
  have key : ∀ d < 10, ∀ b4 b9 : Bool,
      (if (d == 4 && b4) = true then [73, 73, 73, 73] else if (d == 9 && b9) = true then [86, 73, 73, 73, 73]
        else Gen.roman_units.getD d []) = dform 73 86 88 b4 b9 d := by decide
  rw [toUnits, Gen.roman_toUnits_long, toGroup_two]
  exact key d (by omega) _ _

/-- the upper-case numeral in canonical form -/
def canon (n f : Nat) : Bytes :=
  List.replicate (n / 1000) 77
    ++ dform 67 68 77 (hasFlag f Gen.roman_FormatLong400) (hasFlag f Gen.roman_FormatLong900) (n % 1000 / 100)
    ++ dform 88 76 67 (hasFlag f Gen.roman_FormatLong40) (hasFlag f Gen.roman_FormatLong90) (n % 100 / 10)
    ++ dform 73 86 88 (hasFlag f Gen.roman_FormatLong4) (hasFlag f Gen.roman_FormatLong9) (n % 10)

theorem numeral_eq (n f : Nat) : numeral n f = canon n f := by
  rw [numeral, canon, toHundreds_eq _ _ (by omega), toTens_eq _ _ (by omega), toUnits_eq _ _ (by omega)]
  rfl

theorem dform_hundreds : ∀ d < 10, ∀ b4 b9 : Bool,
    dform 67 68 77 b4 b9 d ∈ forms12 67 68 77 ∧ gval 67 68 77 (dform 67 68 77 b4 b9 d) = d := by decide
theorem dform_tens : ∀ d < 10, ∀ b4 b9 : Bool,
    dform 88 76 67 b4 b9 d ∈ forms12 88 76 67 ∧ gval 88 76 67 (dform 88 76 67 b4 b9 d) = d := by decide
theorem dform_units : ∀ d < 10, ∀ b4 b9 : Bool,
    dform 73 86 88 b4 b9 d ∈ forms12 73 86 88 ∧ gval 73 86 88 (dform 73 86 88 b4 b9 d) = d := by decide

/-- the seven letters -/
def letters : List Nat := [73, 86, 88, 76, 67, 68, 77]

theorem letters_case : ∀ c ∈ letters,
    lowerByte c = toLowerAscii c ∧ toUpperAscii (toLowerAscii c) = c ∧ toUpperAscii c = c := by decide

theorem forms12_letters : ∀ g ∈ forms12 67 68 77 ++ forms12 88 76 67 ++ forms12 73 86 88, ∀ c ∈ g, c ∈ letters := by
  decide

theorem canon_letters (n f : Nat) : ∀ c ∈ canon n f, c ∈ letters := by
  intro c hc
  simp only [canon, List.mem_append, List.mem_replicate] at hc
  rcases hc with ((⟨_, rfl⟩ | hc) | hc) | hc
  · decide
  · have m := (dform_hundreds (n % 1000 / 100) (by omega) (hasFlag f Gen.roman_FormatLong400)
      (hasFlag f Gen.roman_FormatLong900)).1
    exact forms12_letters _ (List.mem_append_left _ (List.mem_append_left _ m)) c hc
  · have m := (dform_tens (n % 100 / 10) (by omega) (hasFlag f Gen.roman_FormatLong40)
      (hasFlag f Gen.roman_FormatLong90)).1
    exact forms12_letters _ (List.mem_append_left _ (List.mem_append_right _ m)) c hc
  · have m := (dform_units (n % 10) (by omega) (hasFlag f Gen.roman_FormatLong4)
      (hasFlag f Gen.roman_FormatLong9)).1
    exact forms12_letters _ (List.mem_append_right _ m) c hc

theorem map_lower_letters (s : Bytes) (h : ∀ c ∈ s, c ∈ letters) :
    s.map lowerByte = s.map toLowerAscii ∧ up (s.map toLowerAscii) = s ∧ up s = s := by
  induction s with
  | nil => exact ⟨rfl, rfl, rfl⟩
  | cons c t ih =>
    obtain ⟨e1, e2, e3⟩ := letters_case c (h c (by simp))
    obtain ⟨i1, i2, i3⟩ := ih (fun x hx => h x (by simp [hx]))
    refine ⟨?_, ?_, ?_⟩
    · simp only [List.map_cons, e1, i1]
    · simp only [List.map_cons, up_cons, e2, i2]
    · simp only [up_cons, e3, i3]

/-- `format` in canonical form (also for zero, whose numeral is empty) -/
theorem format_eq (n f : Nat) :
    format [] n f =
      if hasFlag f Gen.roman_FormatLowerCase = true then (canon n f).map toLowerAscii else canon n f := by
  unfold format
  by_cases h0 : n = 0
  · subst h0
    have : canon 0 f = [] := by
      simp [canon, dform]
    simp [this]
  · rw [if_neg h0]
    simp only [numeral_eq, List.nil_append]
    rw [(map_lower_letters _ (canon_letters n f)).1]

theorem up_format (n f : Nat) : up (format [] n f) = canon n f := by
  rw [format_eq]
  obtain ⟨_, e2, e3⟩ := map_lower_letters _ (canon_letters n f)
  split
  · exact e2
  · exact e3

theorem canon_value (n f : Nat) :
    groupsValue (n / 1000)
      (dform 67 68 77 (hasFlag f Gen.roman_FormatLong400) (hasFlag f Gen.roman_FormatLong900) (n % 1000 / 100))
      (dform 88 76 67 (hasFlag f Gen.roman_FormatLong40) (hasFlag f Gen.roman_FormatLong90) (n % 100 / 10))
      (dform 73 86 88 (hasFlag f Gen.roman_FormatLong4) (hasFlag f Gen.roman_FormatLong9) (n % 10)) = n := by
  rw [groupsValue, (dform_hundreds _ (by omega) _ _).2, (dform_tens _ (by omega) _ _).2,
    (dform_units _ (by omega) _ _).2]
  omega

theorem format_ne_nil (n f : Nat) (h0 : n ≠ 0) : format [] n f ≠ [] := by
  intro he
  have hc : canon n f = [] := by rw [← up_format, he]; rfl
  have hv := canon_value n f
  simp only [canon, List.append_eq_nil_iff, List.replicate_eq_nil_iff] at hc
  obtain ⟨⟨⟨hk, hh⟩, ht⟩, hu⟩ := hc
  rw [hh, ht, hu, hk] at hv
  simp [groupsValue, gval] at hv
  omega

/-- **round trip** -/
theorem parse_format' (maxLen : Nat) (de : Bool) (n f : Nat) (hn : n < two64) (h0 : n ≠ 0)
    (hlen : maxLen = 0 ∨ (format [] n f).length ≤ maxLen) :
    parse maxLen de (format [] n f) = .ok n ∧ valid maxLen de (format [] n f) = .ok () := by
  have hs : up (format [] n f) = _ := up_format n f
  unfold canon at hs
  have := parse_of_decomp de (format_ne_nil n f h0) hlen hs (dform_hundreds _ (by omega) _ _).1
    (dform_tens _ (by omega) _ _).1 (dform_units _ (by omega) _ _).1
  rw [canon_value, Nat.mod_eq_of_lt hn] at this
  exact this

end U.Roman
