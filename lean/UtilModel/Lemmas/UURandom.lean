import UtilModel.Lemmas.UUText
import Std.Tactic.BVDecide
/-! # Bit-level lemmas about `RandomID` (the only users of `bv_decide`) -/
namespace U.UU
open U

/-- version bits of a random ID (bv_decide) -/
theorem rnd_version_bv (a b lo : BitVec 64) : Gen.uu_version (Gen.uu_rndHigher a b) lo = 4#64 := by
  simp only [Gen.uu_version, Gen.uu_rndHigher]; bv_decide

/-- top two bits of `Lower` of a random ID built from a 63-bit draw (bv_decide) -/
theorem rnd_variant_bv (a b : BitVec 64) (hb : b.msb = false) :
    Gen.uu_rndLower a b &&& 9223372036854775808#64 ≠ 0#64 ∧
    Gen.uu_rndLower a b &&& 4611686018427387904#64 = 0#64 := by
  simp only [Gen.uu_rndLower]; bv_decide

/-- the inverse of `RandomID` on IDs with version nibble 4 and variant bits 10 (bv_decide) -/
theorem rnd_onto_bv (h l : BitVec 64) (hv : (h >>> 12) &&& 15#64 = 4#64)
    (h1 : l &&& 9223372036854775808#64 ≠ 0#64) (h2 : l &&& 4611686018427387904#64 = 0#64) :
    let a := ((h >>> 1) &&& 0x7fffffffffff8000#64) ||| (h &&& 0xfff#64)
    let b := l <<< 1
    a.msb = false ∧ b.msb = false ∧ Gen.uu_rndHigher a b = h ∧ Gen.uu_rndLower a b = l := by
  simp only [Gen.uu_rndHigher, Gen.uu_rndLower]; bv_decide

/-- the six constant bits (bv_decide) -/
theorem rnd_fixed_bv (a b : BitVec 64) (hb : b.msb = false) :
    Gen.uu_rndHigher a b &&& 0xf000#64 = 0x4000#64 ∧
    Gen.uu_rndLower a b &&& 0xc000000000000000#64 = 0x8000000000000000#64 := by
  simp only [Gen.uu_rndHigher, Gen.uu_rndLower]; bv_decide

/-- flipping bits outside the version nibble keeps the version nibble (bv_decide) -/
theorem rnd_flip_hi_bv (h mh : BitVec 64) (hv : (h >>> 12) &&& 15#64 = 4#64) (hm : mh &&& 0xf000#64 = 0#64) :
    ((h ^^^ mh) >>> 12) &&& 15#64 = 4#64 := by
  bv_decide

/-- flipping bits outside the two variant bits keeps them (bv_decide) -/
theorem rnd_flip_lo_bv (l ml : BitVec 64) (h1 : l &&& 9223372036854775808#64 ≠ 0#64)
    (h2 : l &&& 4611686018427387904#64 = 0#64) (hm : ml &&& 0xc000000000000000#64 = 0#64) :
    (l ^^^ ml) &&& 9223372036854775808#64 ≠ 0#64 ∧ (l ^^^ ml) &&& 4611686018427387904#64 = 0#64 := by
  bv_decide

theorem variant_eq_one_iff (i : ID) :
    i.variant = 1 ↔ i.lo &&& 9223372036854775808#64 ≠ 0#64 ∧ i.lo &&& 4611686018427387904#64 = 0#64 := by
  rw [variant_eq]
  repeat' split
  all_goals simp_all

end U.UU
