import UtilModel.Lemmas.UUText
/-! # Bit-level lemmas about `RandomID`

Kernel-only proofs (no `bv_decide`): every statement is reduced to statements about single bits
(`BitVec.getLsbD`), the bits of the literal masks are computed once by `decide` over the 64 positions
(`lit_bits`), and the remaining Boolean/linear-arithmetic goals are closed by `grind`. -/
namespace U.UU
open U

/-- bits of a 64-bit literal: check the 64 positions by kernel evaluation, the rest is out of range -/
private theorem lit_bits (m : BitVec 64) (p : Nat → Bool)
    (h : ∀ i : Fin 64, m.getLsbD i.val = p i.val) (hp : ∀ i, 64 ≤ i → p i = false) (i : Nat) :
    m.getLsbD i = p i := by
  by_cases hi : i < 64
  · exact h ⟨i, hi⟩
  · rw [hp i (by omega)]; exact BitVec.getLsbD_of_ge _ _ (by omega)

private theorem bit_fff (i : Nat) : (4095#64).getLsbD i = decide (i < 12) :=
  lit_bits _ (fun i => decide (i < 12)) (by decide) (by intro i h; simp; omega) i
private theorem bit_f (i : Nat) : (15#64).getLsbD i = decide (i < 4) :=
  lit_bits _ (fun i => decide (i < 4)) (by decide) (by intro i h; simp; omega) i
private theorem bit_4000 (i : Nat) : (16384#64).getLsbD i = decide (i = 14) :=
  lit_bits _ (fun i => decide (i = 14)) (by decide) (by intro i h; simp; omega) i
private theorem bit_4 (i : Nat) : (4#64).getLsbD i = decide (i = 2) :=
  lit_bits _ (fun i => decide (i = 2)) (by decide) (by intro i h; simp; omega) i
private theorem bit_0 (i : Nat) : (0#64).getLsbD i = false := by simp
private theorem bit_f000 (i : Nat) : (0xf000#64).getLsbD i = decide (12 ≤ i ∧ i < 16) :=
  lit_bits _ (fun i => decide (12 ≤ i ∧ i < 16)) (by decide) (by intro i h; simp; omega) i
private theorem bit_hi48 (i : Nat) : (18446744073709518848#64).getLsbD i = decide (15 ≤ i ∧ i < 64) :=
  lit_bits _ (fun i => decide (15 ≤ i ∧ i < 64)) (by decide) (by intro i h; simp; omega) i
private theorem bit_mid48 (i : Nat) : (0x7fffffffffff8000#64).getLsbD i = decide (15 ≤ i ∧ i < 63) :=
  lit_bits _ (fun i => decide (15 ≤ i ∧ i < 63)) (by decide) (by intro i h; simp; omega) i
private theorem bit_63 (i : Nat) : (9223372036854775808#64).getLsbD i = decide (i = 63) :=
  lit_bits _ (fun i => decide (i = 63)) (by decide) (by intro i h; simp; omega) i
private theorem bit_62 (i : Nat) : (4611686018427387904#64).getLsbD i = decide (i = 62) :=
  lit_bits _ (fun i => decide (i = 62)) (by decide) (by intro i h; simp; omega) i
private theorem bit_top2 (i : Nat) : (0xc000000000000000#64).getLsbD i = decide (62 ≤ i ∧ i < 64) :=
  lit_bits _ (fun i => decide (62 ≤ i ∧ i < 64)) (by decide) (by intro i h; simp; omega) i

/-- equality of 64-bit vectors, bit by bit -/
private theorem eq_iff_bits (x y : BitVec 64) : x = y ↔ ∀ i, i < 64 → x.getLsbD i = y.getLsbD i :=
  ⟨fun h _ _ => h ▸ rfl, BitVec.eq_of_getLsbD_eq⟩

/-- `x &&& (1 <<< k) = 0` iff bit `k` is clear, for a mask with a single set bit -/
private theorem and_single_eq_zero (x m : BitVec 64) (k : Nat) (hk : k < 64)
    (hm : ∀ i, m.getLsbD i = decide (i = k)) : x &&& m = 0#64 ↔ x.getLsbD k = false := by
  rw [eq_iff_bits]
  simp only [BitVec.getLsbD_and, hm, bit_0]
  constructor
  · intro h; have := h k hk; simpa using this
  · intro h i hi
    by_cases hik : i = k
    · subst hik; simp [h]
    · simp [hik]

private theorem and63_ne_zero (l : BitVec 64) : l &&& 9223372036854775808#64 ≠ 0#64 ↔ l.getLsbD 63 = true := by
  rw [ne_eq, and_single_eq_zero l _ 63 (by omega) bit_63]; simp
private theorem and62_eq_zero (l : BitVec 64) : l &&& 4611686018427387904#64 = 0#64 ↔ l.getLsbD 62 = false :=
  and_single_eq_zero l _ 62 (by omega) bit_62

private theorem version_bits (h : BitVec 64) : (h >>> 12) &&& 15#64 = 4#64 ↔
    h.getLsbD 12 = false ∧ h.getLsbD 13 = false ∧ h.getLsbD 14 = true ∧ h.getLsbD 15 = false := by
  rw [eq_iff_bits]
  simp only [BitVec.getLsbD_and, BitVec.getLsbD_ushiftRight, bit_f, bit_4]
  constructor
  · intro H
    have h0 := H 0 (by omega); have h1 := H 1 (by omega); have h2 := H 2 (by omega); have h3 := H 3 (by omega)
    grind
  · rintro ⟨h0, h1, h2, h3⟩ i hi
    rcases (by omega : i = 0 ∨ i = 1 ∨ i = 2 ∨ i = 3 ∨ 4 ≤ i) with rfl | rfl | rfl | rfl | h4
    · grind
    · grind
    · grind
    · grind
    · grind

private theorem and_f000_eq_zero (m : BitVec 64) : m &&& 0xf000#64 = 0#64 ↔
    m.getLsbD 12 = false ∧ m.getLsbD 13 = false ∧ m.getLsbD 14 = false ∧ m.getLsbD 15 = false := by
  rw [eq_iff_bits]
  simp only [BitVec.getLsbD_and, bit_f000, bit_0]
  constructor
  · intro H
    have h0 := H 12 (by omega); have h1 := H 13 (by omega); have h2 := H 14 (by omega); have h3 := H 15 (by omega)
    grind
  · rintro ⟨h0, h1, h2, h3⟩ i hi
    rcases (by omega : i = 12 ∨ i = 13 ∨ i = 14 ∨ i = 15 ∨ ¬ (12 ≤ i ∧ i < 16)) with rfl | rfl | rfl | rfl | h4
    · grind
    · grind
    · grind
    · grind
    · grind

private theorem and_top2_eq_zero (m : BitVec 64) : m &&& 0xc000000000000000#64 = 0#64 ↔
    m.getLsbD 62 = false ∧ m.getLsbD 63 = false := by
  rw [eq_iff_bits]
  simp only [BitVec.getLsbD_and, bit_top2, bit_0]
  constructor
  · intro H
    have h0 := H 62 (by omega); have h1 := H 63 (by omega)
    grind
  · rintro ⟨h0, h1⟩ i hi
    rcases (by omega : i = 62 ∨ i = 63 ∨ ¬ (62 ≤ i ∧ i < 64)) with rfl | rfl | h4
    · grind
    · grind
    · grind

private theorem and_top2_eq_top (x : BitVec 64) : x &&& 0xc000000000000000#64 = 0x8000000000000000#64 ↔
    x.getLsbD 62 = false ∧ x.getLsbD 63 = true := by
  rw [eq_iff_bits]
  simp only [BitVec.getLsbD_and, bit_top2, bit_63]
  constructor
  · intro H
    have h0 := H 62 (by omega); have h1 := H 63 (by omega)
    grind
  · rintro ⟨h0, h1⟩ i hi
    rcases (by omega : i = 62 ∨ i = 63 ∨ i < 62) with rfl | rfl | h4
    · grind
    · grind
    · grind

private theorem and_f000_eq_4000 (x : BitVec 64) : x &&& 0xf000#64 = 0x4000#64 ↔
    x.getLsbD 12 = false ∧ x.getLsbD 13 = false ∧ x.getLsbD 14 = true ∧ x.getLsbD 15 = false := by
  rw [eq_iff_bits]
  simp only [BitVec.getLsbD_and, bit_f000, bit_4000]
  constructor
  · intro H
    have h0 := H 12 (by omega); have h1 := H 13 (by omega); have h2 := H 14 (by omega); have h3 := H 15 (by omega)
    grind
  · rintro ⟨h0, h1, h2, h3⟩ i hi
    rcases (by omega : i = 12 ∨ i = 13 ∨ i = 14 ∨ i = 15 ∨ ¬ (12 ≤ i ∧ i < 16)) with rfl | rfl | rfl | rfl | h4
    · grind
    · grind
    · grind
    · grind
    · grind

/-- bits of `Higher` of a random ID -/
private theorem rndHigher_bit (a b : BitVec 64) (i : Nat) : (Gen.uu_rndHigher a b).getLsbD i =
    ((decide (16 ≤ i ∧ i < 64) && a.getLsbD (i - 1)) || decide (i = 14) || (decide (i < 12) && a.getLsbD i)) := by
  simp only [Gen.uu_rndHigher, BitVec.getLsbD_and, BitVec.getLsbD_or, BitVec.getLsbD_shiftLeft,
    bit_fff, bit_4000, bit_hi48]
  grind

/-- bits of `Lower` of a random ID -/
private theorem rndLower_bit (a b : BitVec 64) (i : Nat) : (Gen.uu_rndLower a b).getLsbD i =
    (b.getLsbD (i + 1) || decide (i = 63)) := by
  simp only [Gen.uu_rndLower, BitVec.getLsbD_or, BitVec.getLsbD_ushiftRight, bit_63]
  grind

/-- version bits of a random ID -/
theorem rnd_version_bv (a b : BitVec 64) : (Gen.uu_rndHigher a b >>> 12) &&& 15#64 = 4#64 := by
  rw [version_bits]
  simp only [rndHigher_bit]
  grind

/-- top two bits of `Lower` of a random ID built from a 63-bit draw -/
theorem rnd_variant_bv (a b : BitVec 64) (hb : b.msb = false) :
    Gen.uu_rndLower a b &&& 9223372036854775808#64 ≠ 0#64 ∧
    Gen.uu_rndLower a b &&& 4611686018427387904#64 = 0#64 := by
  rw [BitVec.msb_eq_getLsbD_last] at hb
  rw [and63_ne_zero, and62_eq_zero]
  simp only [rndLower_bit]
  grind

/-- the six constant bits -/
theorem rnd_fixed_bv (a b : BitVec 64) (hb : b.msb = false) :
    Gen.uu_rndHigher a b &&& 0xf000#64 = 0x4000#64 ∧
    Gen.uu_rndLower a b &&& 0xc000000000000000#64 = 0x8000000000000000#64 := by
  rw [BitVec.msb_eq_getLsbD_last] at hb
  rw [and_f000_eq_4000, and_top2_eq_top]
  simp only [rndHigher_bit, rndLower_bit]
  grind

/-- flipping bits outside the version nibble keeps the version nibble -/
theorem rnd_flip_hi_bv (h mh : BitVec 64) (hv : (h >>> 12) &&& 15#64 = 4#64) (hm : mh &&& 0xf000#64 = 0#64) :
    ((h ^^^ mh) >>> 12) &&& 15#64 = 4#64 := by
  rw [version_bits] at hv ⊢
  rw [and_f000_eq_zero] at hm
  simp only [BitVec.getLsbD_xor]
  grind

/-- flipping bits outside the two variant bits keeps them -/
theorem rnd_flip_lo_bv (l ml : BitVec 64) (h1 : l &&& 9223372036854775808#64 ≠ 0#64)
    (h2 : l &&& 4611686018427387904#64 = 0#64) (hm : ml &&& 0xc000000000000000#64 = 0#64) :
    (l ^^^ ml) &&& 9223372036854775808#64 ≠ 0#64 ∧ (l ^^^ ml) &&& 4611686018427387904#64 = 0#64 := by
  rw [and63_ne_zero] at h1 ⊢
  rw [and62_eq_zero] at h2 ⊢
  rw [and_top2_eq_zero] at hm
  simp only [BitVec.getLsbD_xor]
  grind

/-- the inverse of `RandomID` on IDs with version nibble 4 and variant bits 10 -/
theorem rnd_onto_bv (h l : BitVec 64) (hv : (h >>> 12) &&& 15#64 = 4#64)
    (h1 : l &&& 9223372036854775808#64 ≠ 0#64) (h2 : l &&& 4611686018427387904#64 = 0#64) :
    let a := ((h >>> 1) &&& 0x7fffffffffff8000#64) ||| (h &&& 0xfff#64)
    let b := l <<< 1
    a.msb = false ∧ b.msb = false ∧ Gen.uu_rndHigher a b = h ∧ Gen.uu_rndLower a b = l := by
  rw [version_bits] at hv
  rw [and63_ne_zero] at h1
  rw [and62_eq_zero] at h2
  obtain ⟨v0, v1, v2, v3⟩ := hv
  intro a b
  have abit : ∀ i, a.getLsbD i = ((decide (15 ≤ i ∧ i < 63) && h.getLsbD (i + 1)) || (decide (i < 12) && h.getLsbD i)) := by
    intro i
    simp only [a, BitVec.getLsbD_and, BitVec.getLsbD_or, BitVec.getLsbD_ushiftRight, bit_fff, bit_mid48]
    grind
  have bbit : ∀ i, b.getLsbD i = (decide (1 ≤ i ∧ i < 64) && l.getLsbD (i - 1)) := by
    intro i
    simp only [b, BitVec.getLsbD_shiftLeft]
    grind
  refine ⟨?_, ?_, ?_, ?_⟩
  · rw [BitVec.msb_eq_getLsbD_last, abit]; grind
  · rw [BitVec.msb_eq_getLsbD_last, bbit]; grind
  · rw [eq_iff_bits]
    intro i hi
    rw [rndHigher_bit, abit, abit]
    rcases (by omega : i < 12 ∨ i = 12 ∨ i = 13 ∨ i = 14 ∨ i = 15 ∨ 16 ≤ i) with c | rfl | rfl | rfl | rfl | c
    · grind
    · grind
    · grind
    · grind
    · grind
    · have : i - 1 + 1 = i := by omega
      rw [this]
      grind
  · rw [eq_iff_bits]
    intro i hi
    rw [rndLower_bit, bbit]
    rcases (by omega : i < 62 ∨ i = 62 ∨ i = 63) with c | rfl | rfl
    · simp only [Nat.add_sub_cancel]; grind
    · grind
    · grind

theorem variant_eq_one_iff (i : ID) :
    i.variant = 1 ↔ i.lo &&& 9223372036854775808#64 ≠ 0#64 ∧ i.lo &&& 4611686018427387904#64 = 0#64 := by
  rw [variant_eq]
  repeat' split
  all_goals simp_all

end U.UU
