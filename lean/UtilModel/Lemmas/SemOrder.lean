import UtilModel.Model.Sem
namespace U.Sem
open U

theorem cmpBytes_range (a b : Bytes) : cmpBytes a b = -1 ∨ cmpBytes a b = 0 ∨ cmpBytes a b = 1 := by
  induction a generalizing b with
  | nil => cases b <;> simp [cmpBytes]
  | cons x xs ih =>
    cases b with
    | nil => simp [cmpBytes]
    | cons y ys =>
      simp only [cmpBytes]
      split
      · simp
      · split
        · simp
        · exact ih ys

theorem cmpBytes_refl (a : Bytes) : cmpBytes a a = 0 := by
  induction a with
  | nil => rfl
  | cons x xs ih => simp [cmpBytes, ih]

theorem cmpBytes_antisymm (a b : Bytes) : cmpBytes a b = - cmpBytes b a := by
  induction a generalizing b with
  | nil => cases b <;> simp [cmpBytes]
  | cons x xs ih =>
    cases b with
    | nil => simp [cmpBytes]
    | cons y ys =>
      simp only [cmpBytes]
      by_cases h1 : x < y
      · rw [if_pos h1, if_neg (by omega), if_pos h1]
      · by_cases h2 : y < x
        · rw [if_neg h1, if_pos h2, if_pos h2]; rfl
        · rw [if_neg h1, if_neg h2, if_neg h2, if_neg h1]; exact ih ys

theorem cmpSuffix_range (a b : Bytes) : cmpSuffix a b = -1 ∨ cmpSuffix a b = 0 ∨ cmpSuffix a b = 1 := by
  unfold cmpSuffix; split <;> exact cmpBytes_range _ _

theorem cmpSuffix_antisymm (a b : Bytes) : cmpSuffix a b = - cmpSuffix b a := by
  unfold cmpSuffix
  rw [Bool.and_comm (allDigits b)]
  split <;> exact cmpBytes_antisymm _ _

theorem cmpAlnum_range (a b : Bytes) : cmpAlnum a b = -1 ∨ cmpAlnum a b = 0 ∨ cmpAlnum a b = 1 := by
  induction a generalizing b with
  | nil => cases b <;> simp [cmpAlnum]
  | cons x xs ih =>
    cases b with
    | nil => simp [cmpAlnum]
    | cons y ys =>
      simp only [cmpAlnum]
      split
      · exact ih ys
      · exact cmpSuffix_range _ _

theorem cmpAlnum_refl (a : Bytes) : cmpAlnum a a = 0 := by
  induction a with
  | nil => rfl
  | cons x xs ih => simp [cmpAlnum, ih]

theorem cmpAlnum_antisymm (a b : Bytes) : cmpAlnum a b = - cmpAlnum b a := by
  induction a generalizing b with
  | nil => cases b <;> simp [cmpAlnum]
  | cons x xs ih =>
    cases b with
    | nil => simp [cmpAlnum]
    | cons y ys =>
      simp only [cmpAlnum]
      by_cases h : x = y
      · subst h; simp only [if_true]; exact ih ys
      · rw [if_neg h, if_neg (fun e => h e.symm)]; exact cmpSuffix_antisymm _ _

theorem compareIdentifier_range (a b : Bytes) :
    compareIdentifier a b = -1 ∨ compareIdentifier a b = 0 ∨ compareIdentifier a b = 1 := by
  unfold compareIdentifier
  simp only
  split
  · split <;> simp
  · split
    · split
      · split <;> simp
      · exact cmpBytes_range _ _
    · exact cmpAlnum_range _ _

theorem compareIdentifier_refl (a : Bytes) : compareIdentifier a a = 0 := by
  unfold compareIdentifier
  simp only [bne_self_eq_false, Bool.false_eq_true, if_false, ne_eq, not_true_eq_false]
  split
  · exact cmpBytes_refl _
  · exact cmpAlnum_refl _

theorem compareIdentifier_antisymm (a b : Bytes) : compareIdentifier a b = - compareIdentifier b a := by
  unfold compareIdentifier
  simp only
  cases ha : isNumeric a <;> cases hb : isNumeric b <;> simp only [bne_self_eq_false, Bool.false_eq_true, if_false, if_true]
  · exact cmpAlnum_antisymm _ _
  · simp
  · simp
  · generalize (trimLeft0 a).length = la
    generalize (trimLeft0 b).length = lb
    by_cases hl : la = lb
    · subst hl
      rw [if_neg (by simp), if_neg (by simp)]
      exact cmpBytes_antisymm _ _
    · rw [if_pos hl, if_pos (fun e => hl e.symm)]
      by_cases hlt : la < lb
      · rw [if_pos hlt, if_neg (by omega)]
      · rw [if_neg hlt, if_pos (by omega)]; rfl

theorem cmpIdents_range (as bs : List Bytes) : cmpIdents as bs = -1 ∨ cmpIdents as bs = 0 ∨ cmpIdents as bs = 1 := by
  induction as generalizing bs with
  | nil => cases bs <;> simp [cmpIdents]
  | cons a as ih =>
    cases bs with
    | nil => simp [cmpIdents]
    | cons b bs =>
      simp only [cmpIdents]
      split
      · exact compareIdentifier_range a b
      · cases as <;> cases bs <;> simp
        exact ih _

theorem cmpIdents_refl (as : List Bytes) : cmpIdents as as = 0 := by
  induction as with
  | nil => rfl
  | cons a as ih =>
    simp only [cmpIdents, compareIdentifier_refl, ne_eq, not_true_eq_false, if_false]
    cases as with
    | nil => rfl
    | cons a' as' => simpa using ih

theorem cmpIdents_antisymm (as bs : List Bytes) : cmpIdents as bs = - cmpIdents bs as := by
  induction as generalizing bs with
  | nil => cases bs <;> simp [cmpIdents]
  | cons a as ih =>
    cases bs with
    | nil => simp [cmpIdents]
    | cons b bs =>
      simp only [cmpIdents]
      rw [compareIdentifier_antisymm b a]
      by_cases h : compareIdentifier a b = 0
      · rw [if_neg (by simpa using h), if_neg (by simp [h])]
        cases as <;> cases bs <;> simp
        exact ih _
      · rw [if_pos h, if_pos (by simpa using h)]; simp

theorem comparePre_range (a b : Bytes) : comparePre a b = -1 ∨ comparePre a b = 0 ∨ comparePre a b = 1 := by
  unfold comparePre
  split
  · split <;> simp
  · split
    · simp
    · exact cmpIdents_range _ _

theorem comparePre_refl (a : Bytes) : comparePre a a = 0 := by
  unfold comparePre
  split
  · simp
  · exact cmpIdents_refl _

theorem comparePre_antisymm (a b : Bytes) : comparePre a b = - comparePre b a := by
  unfold comparePre
  cases ha : a.isEmpty <;> cases hb : b.isEmpty <;> simp
  exact cmpIdents_antisymm _ _

/-! `Ver.compare` (used by the code tie of `Ver.Latest`; the property file C14 states the same laws) -/

theorem Ver.compare_range (v w : Ver) : v.compare w = -1 ∨ v.compare w = 0 ∨ v.compare w = 1 := by
  unfold Ver.compare
  repeat' split
  all_goals first | (left; rfl) | (right; right; rfl) | exact comparePre_range _ _

theorem Ver.compare_antisymm (v w : Ver) : v.compare w = - w.compare v := by
  unfold Ver.compare
  simp only [gt_iff_lt]
  have hp := comparePre_antisymm v.pre w.pre
  repeat' split
  all_goals first | omega | rfl


end U.Sem
