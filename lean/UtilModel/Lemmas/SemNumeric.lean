import UtilModel.Model.Sem
import UtilModel.Lemmas.Dec
/-! # Comparing zero-trimmed digit strings by (length, bytes) is numeric comparison — for all digit strings -/
namespace U.Sem
open U

def cmpNat (a b : Nat) : Int := if a < b then -1 else if b < a then 1 else 0

/-- the numeric branch of `compareIdentifier` -/
def cmpNumeric (x y : List Nat) : Int :=
  let a := trimLeft0 x
  let b := trimLeft0 y
  if a.length ≠ b.length then cmpNat a.length b.length else cmpBytes a b

theorem ofDigits_acc (s : List Nat) (acc : Nat) : ofDigits s acc = acc * 10 ^ s.length + ofDigits s 0 := by
  induction s generalizing acc with
  | nil => simp [ofDigits]
  | cons c cs ih =>
    simp only [ofDigits, List.length_cons]
    rw [ih (acc * 10 + (c - 48)), ih (0 * 10 + (c - 48))]
    rw [Nat.pow_succ']
    generalize 10 ^ cs.length = p
    simp only [Nat.zero_mul, Nat.zero_add, Nat.add_mul, Nat.mul_assoc]
    omega

theorem val_cons (c : Nat) (cs : List Nat) : val (c :: cs) = (c - 48) * 10 ^ cs.length + val cs := by
  simp only [val, ofDigits]
  rw [ofDigits_acc]
  simp

theorem val_trimLeft0 (s : List Nat) : val (trimLeft0 s) = val s := by
  induction s with
  | nil => rfl
  | cons c cs ih =>
    by_cases h : c = 48
    · subst h; simp only [trimLeft0]; rw [ih, val_cons]; simp
    · have : trimLeft0 (c :: cs) = c :: cs := by
        unfold trimLeft0; split
        · rename_i heq; cases heq; exact absurd rfl h
        · rfl
      rw [this]

theorem allDigits_trimLeft0 (s : List Nat) (h : allDigits s = true) : allDigits (trimLeft0 s) = true := by
  induction s with
  | nil => exact h
  | cons c cs ih =>
    by_cases hc : c = 48
    · subst hc; simp only [trimLeft0]; exact ih (by simp only [allDigits, List.all_cons, Bool.and_eq_true] at h; simpa [allDigits] using h.2)
    · have : trimLeft0 (c :: cs) = c :: cs := by
        unfold trimLeft0; split
        · rename_i heq; cases heq; exact absurd rfl hc
        · rfl
      rw [this]; exact h

/-- a trimmed string does not start with '0' -/
def noLead0 : List Nat → Prop
  | 48 :: _ => False
  | _ => True

theorem noLead0_trimLeft0 (s : List Nat) : noLead0 (trimLeft0 s) := by
  induction s with
  | nil => trivial
  | cons c cs ih =>
    by_cases hc : c = 48
    · subst hc; simpa [trimLeft0] using ih
    · have : trimLeft0 (c :: cs) = c :: cs := by
        unfold trimLeft0; split
        · rename_i heq; cases heq; exact absurd rfl hc
        · rfl
      rw [this]
      unfold noLead0; split
      · rename_i heq; cases heq; exact absurd rfl hc
      · trivial

theorem val_ge (s : List Nat) (hd : allDigits s = true) (hn : noLead0 s) (hne : s ≠ []) : 10 ^ (s.length - 1) ≤ val s := by
  cases s with
  | nil => exact absurd rfl hne
  | cons c cs =>
    simp only [allDigits, List.all_cons, Bool.and_eq_true] at hd
    have hc := hd.1; simp only [isDigit, Bool.and_eq_true, decide_eq_true_eq] at hc
    have hc48 : c ≠ 48 := by
      intro h; subst h; exact hn
    rw [val_cons]; simp only [List.length_cons, Nat.add_sub_cancel]
    have : 1 ≤ c - 48 := by omega
    calc 10 ^ cs.length = 1 * 10 ^ cs.length := by simp
      _ ≤ (c - 48) * 10 ^ cs.length := Nat.mul_le_mul_right _ this
      _ ≤ _ := Nat.le_add_right _ _

theorem cmpBytes_eqlen (a b : List Nat) (ha : allDigits a = true) (hb : allDigits b = true) (hl : a.length = b.length) :
    cmpBytes a b = cmpNat (val a) (val b) := by
  induction a generalizing b with
  | nil => cases b with
    | nil => simp [cmpBytes, cmpNat]
    | cons _ _ => simp at hl
  | cons x xs ih =>
    cases b with
    | nil => simp at hl
    | cons y ys =>
      simp only [List.length_cons, Nat.add_right_cancel_iff] at hl
      simp only [allDigits, List.all_cons, Bool.and_eq_true] at ha hb
      have hx := ha.1; have hy := hb.1
      simp only [isDigit, Bool.and_eq_true, decide_eq_true_eq] at hx hy
      have hxs : allDigits xs = true := by simpa [allDigits] using ha.2
      have hys : allDigits ys = true := by simpa [allDigits] using hb.2
      have lx := val_lt xs hxs
      have ly := val_lt ys hys
      have ih' := ih ys hxs hys hl
      rw [val_cons, val_cons, hl]
      rw [hl] at lx
      simp only [cmpBytes]
      generalize 10 ^ ys.length = p at *
      have hp : 0 < p → True := fun _ => trivial
      by_cases h1 : x < y
      · simp only [h1, if_true, cmpNat]
        have : (x - 48) * p + p ≤ (y - 48) * p := by
          have : (x - 48) + 1 ≤ y - 48 := by omega
          calc (x - 48) * p + p = ((x - 48) + 1) * p := by rw [Nat.add_mul]; simp
            _ ≤ (y - 48) * p := Nat.mul_le_mul_right p this
        have hlt : (x - 48) * p + val xs < (y - 48) * p + val ys := by omega
        simp [hlt]
      · by_cases h2 : y < x
        · simp only [h1, h2, if_false, if_true, cmpNat]
          have : (y - 48) * p + p ≤ (x - 48) * p := by
            have : (y - 48) + 1 ≤ x - 48 := by omega
            calc (y - 48) * p + p = ((y - 48) + 1) * p := by rw [Nat.add_mul]; simp
              _ ≤ (x - 48) * p := Nat.mul_le_mul_right p this
          have hlt : (y - 48) * p + val ys < (x - 48) * p + val xs := by omega
          have hnl : ¬ ((x - 48) * p + val xs < (y - 48) * p + val ys) := by omega
          simp [hlt, hnl]
        · have hxy : x = y := by omega
          subst hxy
          simp only [Nat.lt_irrefl, if_false, ih', cmpNat]
          by_cases h3 : val xs < val ys
          · have : (x - 48) * p + val xs < (x - 48) * p + val ys := by omega
            simp [h3, this]
          · by_cases h4 : val ys < val xs
            · have : (x - 48) * p + val ys < (x - 48) * p + val xs := by omega
              have hn : ¬ ((x - 48) * p + val xs < (x - 48) * p + val ys) := by omega
              simp [h3, h4, this, hn]
            · have hn1 : ¬ ((x - 48) * p + val xs < (x - 48) * p + val ys) := by omega
              have hn2 : ¬ ((x - 48) * p + val ys < (x - 48) * p + val xs) := by omega
              simp [h3, h4, hn1, hn2]

theorem len_lt_val_lt (a b : List Nat) (ha : allDigits a = true) (hb : allDigits b = true) (hnb : noLead0 b)
    (hl : a.length < b.length) : val a < val b := by
  have h1 := val_lt a ha
  have hbne : b ≠ [] := by intro h; subst h; simp at hl
  have h2 := val_ge b hb hnb hbne
  have : 10 ^ a.length ≤ 10 ^ (b.length - 1) := Nat.pow_le_pow_right (by decide) (by omega)
  omega

/-- main lemma: the code's numeric branch is numeric comparison, for all digit strings -/
theorem cmpNumeric_spec (x y : List Nat) (hx : allDigits x = true) (hy : allDigits y = true) :
    cmpNumeric x y = cmpNat (val x) (val y) := by
  unfold cmpNumeric
  simp only
  have ha := allDigits_trimLeft0 x hx
  have hb := allDigits_trimLeft0 y hy
  rw [← val_trimLeft0 x, ← val_trimLeft0 y]
  split
  · rename_i hne
    by_cases hl : (trimLeft0 x).length < (trimLeft0 y).length
    · have := len_lt_val_lt _ _ ha hb (noLead0_trimLeft0 y) hl
      simp [cmpNat, hl, this]
    · have hl' : (trimLeft0 y).length < (trimLeft0 x).length := by omega
      have := len_lt_val_lt _ _ hb ha (noLead0_trimLeft0 x) hl'
      have hn : ¬ (val (trimLeft0 x) < val (trimLeft0 y)) := by omega
      simp [cmpNat, hl, hl', this, hn]
  · rename_i heq
    exact cmpBytes_eqlen _ _ ha hb (by simpa using heq)


end U.Sem
