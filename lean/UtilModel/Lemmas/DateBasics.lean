import UtilModel.Model.Date
import UtilModel.Lemmas.Calendar
/-! # Basic facts about the `date` model: `New` on valid dates, stored fields, order vs. day number -/
namespace U.Date
open U U.GoTime

theorem wrap32_id {x : Int} (h : -2147483648 ≤ x ∧ x < 2147483648) : wrap32 x = x := by
  unfold wrap32; omega

theorem wrap32_range (x : Int) : -2147483648 ≤ wrap32 x ∧ wrap32 x < 2147483648 := by
  unfold wrap32; omega

theorem wrap32_succ_pred (x : Int) : wrap32 (wrap32 (x - 1) + 1) = wrap32 x := by
  unfold wrap32; omega

/-- `time.Date` does not normalise anything for a month in 1..12 -/
theorem ordinalNorm_valid (y : Int) (m : Nat) (d : Int) (h1 : 1 ≤ m) (h12 : m ≤ 12) :
    ordinalNorm y m d = ordinal y m d := by
  unfold ordinalNorm
  have e1 : ((m : Int) - 1) / 12 = 0 := by omega
  have e2 : ((((m : Int) - 1) % 12).toNat + 1) = m := by omega
  simp only [e1, e2, Int.add_zero]

/-- `New` on a valid date stores exactly year-1, month-1, day-1 -/
theorem new_valid {y : Int} {m : Nat} {d : Int} (hv : ValidDate y m d) :
    new y m d = ⟨wrap32 (y - 1), m - 1, (d - 1).toNat⟩ := by
  unfold new
  rw [ordinalNorm_valid y m d hv.1 hv.2.1, civil_ordinal hv]
  obtain ⟨h1, h12, hd1, hd⟩ := hv
  have := daysIn_le y m
  unfold ofCivil
  simp only
  congr 1
  · omega
  · omega

/-- … and reads back as the same year, month and day (year within int32) -/
theorem date_new_valid {y : Int} {m : Nat} {d : Int} (hv : ValidDate y m d)
    (hy : -2147483648 ≤ y ∧ y < 2147483648) : (new y m d).date = (y, m, d.toNat) := by
  rw [new_valid hv]
  obtain ⟨h1, h12, hd1, hd⟩ := hv
  have := daysIn_le y m
  unfold Date.date
  simp only
  rw [wrap32_succ_pred, wrap32_id hy]
  refine Prod.ext rfl (Prod.ext ?_ ?_) <;> simp only <;> omega

/-- a stored date is *proper* when it reads back as a valid calendar date -/
def Proper (d : Date) : Prop :=
  ValidDate d.date.1 d.date.2.1 d.date.2.2 ∧ -2147483648 ≤ d.year ∧ d.year < 2147483647 ∧ d.month < 12 ∧ d.day < 31

theorem proper_new {y : Int} {m : Nat} {d : Int} (hv : ValidDate y m d)
    (hy : -2147483647 ≤ y ∧ y < 2147483648) : Proper (new y m d) := by
  have hd := date_new_valid hv ⟨by omega, hy.2⟩
  unfold Proper
  rw [hd]
  obtain ⟨h1, h12, hd1, hd'⟩ := hv
  have := daysIn_le y m
  refine ⟨⟨h1, h12, by simp only; omega, by simp only; omega⟩, ?_⟩
  rw [new_valid ⟨h1, h12, hd1, hd'⟩]
  simp only
  rw [wrap32_id (by omega)]
  omega

/-- day number of a proper stored date, in terms of its visible components -/
theorem ordinal_proper {d : Date} (h : Proper d) :
    d.ordinal = ordinal d.date.1 d.date.2.1 d.date.2.2 := by
  unfold Date.ordinal
  exact ordinalNorm_valid _ _ _ h.1.1 h.1.2.1

/-- the visible components of a proper date are its stored fields plus one -/
theorem date_proper {d : Date} (h : Proper d) : d.date = (d.year + 1, d.month + 1, d.day + 1) := by
  obtain ⟨_, h1, h2, h3, h4⟩ := h
  unfold Date.date
  rw [wrap32_id (by omega)]
  refine Prod.ext rfl (Prod.ext ?_ ?_) <;> simp only <;> omega

end U.Date
