import UtilModel.Model.Date
import UtilModel.Lemmas.Calendar
/-! # Basic facts about the `date` model: `New` on valid dates, stored fields, order vs. day number -/
namespace U.Date
open U U.GoTime

theorem wrap32_id {x : Int} (h : -2147483648 ≤ x ∧ x < 2147483648) : wrap32 x = x := by
  unfold wrap32; omega

theorem wrap32_range (x : Int) : -2147483648 ≤ wrap32 x ∧ wrap32 x < 2147483648 := by
  unfold wrap32; omega

theorem wrap32_succ_pred (x : Int) : wrap32 (wrap32 (x - 1) + 1) = wrap32 x := by
  unfold wrap32; omega

/-- `time.Date` does not normalise anything for a month in 1..12 -/
theorem ordinalNorm_valid (y : Int) (m : Nat) (d : Int) (h1 : 1 ≤ m) (h12 : m ≤ 12) :
    ordinalNorm y m d = ordinal y m d := by
  unfold ordinalNorm
  have e1 : ((m : Int) - 1) / 12 = 0 := by omega
  have e2 : ((((m : Int) - 1) % 12).toNat + 1) = m := by omega
  simp only [e1, e2, Int.add_zero]

/-- `New` on a valid date stores exactly year-1, month-1, day-1 -/
theorem new_valid {y : Int} {m : Nat} {d : Int} (hv : ValidDate y m d) :
    new y m d = ⟨wrap32 (y - 1), m - 1, (d - 1).toNat⟩ := by
  unfold new
  rw [ordinalNorm_valid y m d hv.1 hv.2.1, civil_ordinal hv]
  obtain ⟨h1, h12, hd1, hd⟩ := hv
  have := daysIn_le y m
  unfold ofCivil
  simp only
  congr 1
  · omega
  · omega

/-- … and reads back as the same year, month and day (year within int32) -/
theorem date_new_valid {y : Int} {m : Nat} {d : Int} (hv : ValidDate y m d)
    (hy : -2147483648 ≤ y ∧ y < 2147483648) : (new y m d).date = (y, m, d.toNat) := by
  rw [new_valid hv]
  obtain ⟨h1, h12, hd1, hd⟩ := hv
  have := daysIn_le y m
  unfold Date.date
  simp only
  rw [wrap32_succ_pred, wrap32_id hy]
  refine Prod.ext rfl (Prod.ext ?_ ?_) <;> simp only <;> omega

/-- a stored date is *proper* when it reads back as a valid calendar date -/
def Proper (d : Date) : Prop :=
  ValidDate d.date.1 d.date.2.1 d.date.2.2 ∧ -2147483648 ≤ d.year ∧ d.year < 2147483647 ∧ d.month < 12 ∧ d.day < 31

theorem proper_new {y : Int} {m : Nat} {d : Int} (hv : ValidDate y m d)
    (hy : -2147483647 ≤ y ∧ y < 2147483648) : Proper (new y m d) := by
  have hd := date_new_valid hv ⟨by omega, hy.2⟩
  unfold Proper
  rw [hd]
  obtain ⟨h1, h12, hd1, hd'⟩ := hv
  have := daysIn_le y m
  refine ⟨⟨h1, h12, by simp only; omega, by simp only; omega⟩, ?_⟩
  rw [new_valid ⟨h1, h12, hd1, hd'⟩]
  simp only
  rw [wrap32_id (by omega)]
  omega

/-- day number of a proper stored date, in terms of its visible components -/
theorem ordinal_proper {d : Date} (h : Proper d) :
    d.ordinal = ordinal d.date.1 d.date.2.1 d.date.2.2 := by
  unfold Date.ordinal
  exact ordinalNorm_valid _ _ _ h.1.1 h.1.2.1

/-- the visible components of a proper date are its stored fields plus one -/
theorem date_proper {d : Date} (h : Proper d) : d.date = (d.year + 1, d.month + 1, d.day + 1) := by
  obtain ⟨_, h1, h2, h3, h4⟩ := h
  unfold Date.date
  rw [wrap32_id (by omega)]
  refine Prod.ext rfl (Prod.ext ?_ ?_) <;> simp only <;> omega


theorem ofCivil_valid {y : Int} {m : Nat} {d : Int} (hv : ValidDate y m d) :
    ofCivil (y, m, d) = ⟨wrap32 (y - 1), m - 1, (d - 1).toNat⟩ := by
  obtain ⟨h1, h12, hd1, hd⟩ := hv
  have := daysIn_le y m
  unfold ofCivil
  simp only
  congr 1
  · omega
  · omega

/-- what `FromTime` stores for the day with number `n`, provided its year fits `int32` -/
theorem ofCivil_civil (n : Int) (hy : -2147483647 ≤ (civil n).1 ∧ (civil n).1 < 2147483648) :
    Proper (ofCivil (civil n)) ∧ (ofCivil (civil n)).ordinal = n ∧
      (ofCivil (civil n)).date = ((civil n).1, (civil n).2.1, (civil n).2.2.toNat) := by
  obtain ⟨hv, ho⟩ := ordinal_civil n
  have e : civil n = ((civil n).1, (civil n).2.1, (civil n).2.2) := rfl
  generalize (civil n).1 = y at *
  generalize (civil n).2.1 = m at *
  generalize (civil n).2.2 = d at *
  rw [e]
  have hn := new_valid hv
  have hp := proper_new hv hy
  have hd := date_new_valid hv ⟨by omega, hy.2⟩
  rw [← ofCivil_valid hv] at hn
  rw [← hn]
  refine ⟨hp, ?_, hd⟩
  rw [ordinal_proper hp, hd]
  obtain ⟨h1, h12, hd1, hd'⟩ := hv
  have e2 : ((d.toNat : Nat) : Int) = d := by omega
  simp only [e2]
  exact ho

/-- stored-field comparison of proper dates is comparison of day numbers -/
theorem before_iff {d e : Date} (hd : Proper d) (he : Proper e) :
    d.before e = true ↔ d.ordinal < e.ordinal := by
  rw [ordinal_proper hd, ordinal_proper he, ordinal_lt_iff hd.1 he.1, date_proper hd, date_proper he]
  unfold Date.before
  simp only
  constructor
  · intro h
    split at h
    · left; omega
    · split at h
      · simp at h
      · split at h
        · right; exact ⟨by omega, Or.inl (by omega)⟩
        · split at h
          · simp at h
          · split at h
            · right; exact ⟨by omega, Or.inr ⟨by omega, by omega⟩⟩
            · simp at h
  · intro h
    rcases h with h | ⟨h1, h2 | ⟨h2, h3⟩⟩
    · rw [if_pos (by omega)]
    · rw [if_neg (by omega), if_neg (by omega), if_pos (by omega)]
    · rw [if_neg (by omega), if_neg (by omega), if_neg (by omega), if_neg (by omega), if_pos (by omega)]

theorem after_eq_before (d e : Date) : d.after e = e.before d := rfl

theorem after_iff {d e : Date} (hd : Proper d) (he : Proper e) :
    d.after e = true ↔ e.ordinal < d.ordinal := by
  rw [after_eq_before, before_iff he hd]

theorem equal_iff_eq (d e : Date) : d.equal e = true ↔ d = e := by
  unfold Date.equal
  simp only [Bool.and_eq_true, beq_iff_eq]
  constructor
  · intro h; cases d; cases e; simp_all
  · intro h; subst h; simp

theorem equal_iff {d e : Date} (hd : Proper d) (he : Proper e) :
    d.equal e = true ↔ d.ordinal = e.ordinal := by
  rw [equal_iff_eq]
  constructor
  · intro h; rw [h]
  · intro h
    have h1 := before_iff hd he
    have h2 := before_iff he hd
    have n1 : d.before e = false := by
      cases hb : d.before e
      · rfl
      · have := h1.mp hb; omega
    have n2 : e.before d = false := by
      cases hb : e.before d
      · rfl
      · have := h2.mp hb; omega
    unfold Date.before at n1 n2
    have : d.year = e.year ∧ d.month = e.month ∧ d.day = e.day := by
      by_cases a1 : d.year < e.year
      · rw [if_pos a1] at n1; simp at n1
      · by_cases a2 : d.year > e.year
        · rw [if_pos a2] at n2; simp at n2
        · rw [if_neg a1, if_neg a2] at n1
          rw [if_neg a2, if_neg a1] at n2
          by_cases a3 : d.month < e.month
          · rw [if_pos a3] at n1; simp at n1
          · by_cases a4 : d.month > e.month
            · rw [if_pos a4] at n2; simp at n2
            · rw [if_neg a3, if_neg a4] at n1
              rw [if_neg a4, if_neg a3] at n2
              by_cases a5 : d.day < e.day
              · rw [if_pos a5] at n1; simp at n1
              · by_cases a6 : e.day < d.day
                · rw [if_pos a6] at n2; simp at n2
                · exact ⟨by omega, by omega, by omega⟩
    cases d; cases e; simp_all

end U.Date
