import UtilModel.Spec.SizeJson
import UtilModel.Lemmas.JsonTokens
import UtilModel.Lemmas.SizeObject
import UtilModel.Lemmas.SizeMembers
/-!
# The parser model on rendered JSON documents: refinement of `evalMembers`

* scanner on rendered scalars: `scanNumber_stages` (the model's `scanNumber` as four named stages, by
  `rfl`), `scanNumber_intLit`, `scanString_plain`, `unquote_plain`, `scanScalar_render`;
* `skip_value`/`skip_elems`/`skip_members` (mutual, by structural recursion on `JVal`): inside the skip
  loop a rendered value of any nesting is consumed exactly; `skipNested_render`, `decodeValue_render`,
  `decodeUnit_render`;
* `objectLoop_step`, `objectLoop_tail`, `objectLoop_render`: the member loop computes `evalLoop`;
  `unmarshalJSON_renderObject`, `parse_renderObject`.
-/
namespace U.JsonTokens
open U U.GoJson

/-! ## `scanNumber` in named stages -/
def negPart (s : Bytes) : Bytes × Bytes :=
  match s with | 45 :: t => ([45], t) | _ => ([], s)
def intPart (s1 : Bytes) : Except JErr (Bytes × Bytes) :=
  match s1 with
  | [] => .error .unexpectedEOF
  | 48 :: t => .ok ([48], t)
  | c :: t => if isDigit c then let (ds, r) := spanDigits t; .ok (c :: ds, r) else .error .syntax
def fracPart (s2 : Bytes) : Except JErr (Bytes × Bytes) :=
  match s2 with
  | 46 :: t =>
    match t with
    | [] => .error .unexpectedEOF
    | c :: _ => if isDigit c then let (ds, r) := spanDigits t; .ok (46 :: ds, r) else .error .syntax
  | _ => .ok ([], s2)
def expPart (s3 : Bytes) : Except JErr (Bytes × Bytes) :=
  match s3 with
  | e :: t =>
    if e == 101 || e == 69 then
      let (sg, t1) := match t with
        | 43 :: u => ([43], u) | 45 :: u => ([45], u) | _ => ([], t)
      match t1 with
      | [] => .error .unexpectedEOF
      | c :: _ => if isDigit c then let (ds, r) := spanDigits t1; .ok (e :: sg ++ ds, r) else .error .syntax
    else .ok ([], s3)
  | [] => .ok ([], s3)

theorem scanNumber_stages (s : Bytes) : scanNumber s =
    match intPart (negPart s).2 with
    | .error e => .error e
    | .ok (ip, s2) =>
      match fracPart s2 with
      | .error e => .error e
      | .ok (fp, s3) =>
        match expPart s3 with
        | .error e => .error e
        | .ok (ep, s4) => .ok ((negPart s).1 ++ ip ++ fp ++ ep, s4) := rfl


/-- the byte after a number literal does not continue it -/
def numEnd (rest : Bytes) : Prop :=
  ∀ c t, rest = c :: t → isDigit c = false ∧ c ≠ 46 ∧ c ≠ 101 ∧ c ≠ 69

theorem spanDigits_append {ds rest : Bytes} (hd : allDigits ds = true)
    (hr : ∀ c t, rest = c :: t → isDigit c = false) : spanDigits (ds ++ rest) = (ds, rest) := by
  induction ds with
  | nil =>
    cases rest with
    | nil => simp [spanDigits]
    | cons c t => simp [spanDigits, hr c t rfl]
  | cons c t ih =>
    simp only [allDigits, List.all_cons, Bool.and_eq_true] at hd
    simp only [List.cons_append, spanDigits, hd.1, if_true]
    rw [ih (by simpa [allDigits] using hd.2)]

theorem negPart_minus (s : Bytes) : negPart (45 :: s) = ([45], s) := rfl

theorem negPart_other {c : Nat} (s : Bytes) (hc : c ≠ 45) : negPart (c :: s) = ([], c :: s) := by
  unfold negPart
  split
  · rename_i h; simp only [List.cons.injEq] at h; omega
  · rfl

theorem intPart_zero (rest : Bytes) : intPart (48 :: rest) = .ok ([48], rest) := rfl

theorem intPart_digits {c : Nat} {t rest : Bytes} (hc : isDigit c = true) (h0 : c ≠ 48)
    (ht : allDigits t = true) (hr : numEnd rest) : intPart (c :: (t ++ rest)) = .ok (c :: t, rest) := by
  have hsp : spanDigits (t ++ rest) = (t, rest) := spanDigits_append ht (fun c t h => (hr c t h).1)
  unfold intPart
  split
  · rename_i h; simp at h
  · rename_i h; simp only [List.cons.injEq] at h; omega
  · rename_i h
    simp only [List.cons.injEq] at h
    obtain ⟨rfl, rfl⟩ := h
    simp [hc, hsp]

theorem fracPart_end {rest : Bytes} (hr : numEnd rest) : fracPart rest = .ok ([], rest) := by
  unfold fracPart
  split
  · exact absurd rfl (hr _ _ rfl).2.1
  · rfl

theorem expPart_end {rest : Bytes} (hr : numEnd rest) : expPart rest = .ok ([], rest) := by
  unfold expPart
  split
  · rename_i e t
    obtain ⟨_, _, h3, h4⟩ := hr e t rfl
    simp [h3, h4]
  · rfl

theorem intPart_digitsLit {ds rest : Bytes} (h : U.Props.C12.digitsLit ds = true) (hr : numEnd rest) :
    intPart (ds ++ rest) = .ok (ds, rest) ∧ ∀ c t, ds = c :: t → c ≠ 45 := by
  unfold U.Props.C12.digitsLit at h
  split at h
  · simp at h
  · exact ⟨intPart_zero rest, by intro c t h; simp only [List.cons.injEq] at h; omega⟩
  · rename_i c t _
    simp only [Bool.and_eq_true, bne_iff_ne, ne_eq] at h
    refine ⟨intPart_digits h.1.2 h.1.1 h.2 hr, ?_⟩
    intro c' t' h'
    simp only [List.cons.injEq] at h'
    have := h.1.2
    simp only [isDigit, Bool.and_eq_true, decide_eq_true_eq] at this
    omega

/-- an integer literal followed by a byte that cannot continue a number is scanned exactly -/
theorem scanNumber_intLit {lit rest : Bytes} (hl : U.Props.C12.intLit lit = true) (hr : numEnd rest) :
    scanNumber (lit ++ rest) = .ok (lit, rest) := by
  rw [scanNumber_stages]
  unfold U.Props.C12.intLit at hl
  split at hl
  · rename_i t
    obtain ⟨h1, _⟩ := intPart_digitsLit hl hr
    simp only [List.cons_append, negPart_minus, h1, fracPart_end hr, expPart_end hr]
    simp
  · rename_i hne
    obtain ⟨h1, h2⟩ := intPart_digitsLit hl hr
    cases lit with
    | nil => simp [U.Props.C12.digitsLit] at hl
    | cons c t =>
      have hc := h2 c t rfl
      rw [List.cons_append, negPart_other _ hc]
      rw [List.cons_append] at h1
      simp only [h1, fracPart_end hr, expPart_end hr]
      simp

/-- the first byte of an integer literal -/
theorem intLit_head {lit : Bytes} (hl : U.Props.C12.intLit lit = true) :
    ∃ c t, lit = c :: t ∧ (c = 45 ∨ isDigit c = true) := by
  unfold U.Props.C12.intLit at hl
  split at hl
  · exact ⟨45, _, rfl, .inl rfl⟩
  · cases lit with
    | nil => simp [U.Props.C12.digitsLit] at hl
    | cons c t =>
      refine ⟨c, t, rfl, .inr ?_⟩
      unfold U.Props.C12.digitsLit at hl
      split at hl
      · simp at hl
      · rename_i h; simp only [List.cons.injEq] at h; rw [h.1]; rfl
      · rename_i h
        simp only [List.cons.injEq] at h
        simp only [Bool.and_eq_true] at hl
        rw [h.1]; exact hl.1.2


theorem skipSpace_cons {c : Nat} (t : Bytes) (hc : isSpace c = false) : skipSpace (c :: t) = c :: t := by
  simp [skipSpace, hc]

/-- a byte that starts a scalar: not white space, not a delimiter or separator -/
def scalarStart (c : Nat) : Prop :=
  isSpace c = false ∧ c ≠ 91 ∧ c ≠ 93 ∧ c ≠ 123 ∧ c ≠ 125 ∧ c ≠ 58 ∧ c ≠ 44

theorem tokenF_scalar {f : Nat} {c : Nat} {t : Bytes} {st : TState} {S : List TState} {tok : Tok} {r : Bytes}
    (hc : scalarStart c) (hst : valueAllowed st = true) (hs : scanScalar (c :: t) = .ok (tok, r)) :
    tokenF (f + 1) ⟨c :: t, st, S⟩ = .ok (tok, ⟨r, valueEnd st, S⟩) := by
  obtain ⟨h0, h1, h2, h3, h4, h5, h6⟩ := hc
  simp only [tokenF, skipSpace_cons t h0]
  have e1 : (c == 91) = false := by simp [h1]
  have e2 : (c == 93) = false := by simp [h2]
  have e3 : (c == 123) = false := by simp [h3]
  have e4 : (c == 125) = false := by simp [h4]
  have e5 : (c == 58) = false := by simp [h5]
  have e6 : (c == 44) = false := by simp [h6]
  simp only [e1, e2, e3, e4, e5, e6, Bool.false_eq_true, if_false, hs, hst, Bool.not_true]
  cases st <;> simp [valueAllowed] at hst <;> simp

theorem tokenF_key {f : Nat} {t : Bytes} {st : TState} {S : List TState} {tok : Tok} {r : Bytes}
    (hst : st = .objectStart ∨ st = .objectKey) (hs : scanScalar (34 :: t) = .ok (tok, r)) :
    tokenF (f + 1) ⟨34 :: t, st, S⟩ = .ok (tok, ⟨r, .objectColon, S⟩) := by
  simp only [tokenF, skipSpace_cons t (by decide : isSpace 34 = false)]
  rcases hst with rfl | rfl <;> simp [hs]

theorem tokenF_open {f : Nat} {c : Nat} {t : Bytes} {st : TState} {S : List TState}
    (hc : c = 91 ∨ c = 123) (hst : valueAllowed st = true) :
    tokenF (f + 1) ⟨c :: t, st, S⟩ =
      .ok (.delim c, ⟨t, if c = 91 then .arrayStart else .objectStart, st :: S⟩) := by
  rcases hc with rfl | rfl
  · simp [tokenF, skipSpace_cons t (by decide : isSpace 91 = false), hst]
  · simp [tokenF, skipSpace_cons t (by decide : isSpace 123 = false), hst]

theorem tokenF_closeArr {f : Nat} {t : Bytes} {st p : TState} {S : List TState}
    (hst : st = .arrayStart ∨ st = .arrayComma) :
    tokenF (f + 1) ⟨93 :: t, st, p :: S⟩ = .ok (.delim 93, ⟨t, valueEnd p, S⟩) := by
  rcases hst with rfl | rfl <;> simp [tokenF, skipSpace_cons t (by decide : isSpace 93 = false)]

theorem tokenF_closeObj {f : Nat} {t : Bytes} {st p : TState} {S : List TState}
    (hst : st = .objectStart ∨ st = .objectComma) :
    tokenF (f + 1) ⟨125 :: t, st, p :: S⟩ = .ok (.delim 125, ⟨t, valueEnd p, S⟩) := by
  rcases hst with rfl | rfl <;> simp [tokenF, skipSpace_cons t (by decide : isSpace 125 = false)]

theorem token_colon (r : Bytes) (S : List TState) :
    Dec.token ⟨58 :: r, .objectColon, S⟩ = Dec.token ⟨r, .objectValue, S⟩ := by
  simp [Dec.token, tokenF, skipSpace_cons r (by decide : isSpace 58 = false)]

theorem token_commaArr (r : Bytes) (S : List TState) :
    Dec.token ⟨44 :: r, .arrayComma, S⟩ = Dec.token ⟨r, .arrayValue, S⟩ := by
  simp [Dec.token, tokenF, skipSpace_cons r (by decide : isSpace 44 = false)]

theorem token_commaObj (r : Bytes) (S : List TState) :
    Dec.token ⟨44 :: r, .objectComma, S⟩ = Dec.token ⟨r, .objectKey, S⟩ := by
  simp [Dec.token, tokenF, skipSpace_cons r (by decide : isSpace 44 = false)]


end U.JsonTokens

namespace U.Props.C12
open U U.GoJson U.JsonTokens U.Size U.SizeObject

theorem plainByte_iff {c : Nat} : plainByte c = true ↔ 32 ≤ c ∧ c < 128 ∧ c ≠ 34 ∧ c ≠ 92 := by
  simp [plainByte, and_assoc]

theorem scanString_plain {s : Bytes} (hs : plain s = true) (rest acc : Bytes) :
    scanString (s ++ 34 :: rest) acc = .ok (acc.reverse ++ s, rest) := by
  induction s generalizing acc with
  | nil => simp [scanString]
  | cons c t ih =>
    simp only [plain, List.all_cons, Bool.and_eq_true] at hs
    obtain ⟨h1, h2, h3, h4⟩ := plainByte_iff.mp hs.1
    simp only [List.cons_append]
    rw [scanString.eq_def]
    split
    · rename_i h; simp at h
    · rename_i h; simp only [List.cons.injEq] at h; omega
    · rename_i h; simp only [List.cons.injEq] at h; omega
    · rename_i c' t' acc' _ _ h
      simp only [List.cons.injEq] at h
      obtain ⟨rfl, rfl⟩ := h
      rw [if_neg (by omega), ih hs.2]
      simp

theorem unquoteF_plain {s : Bytes} (hs : plain s = true) (f : Nat) (hf : s.length < f) :
    unquoteF f s = s := by
  induction s generalizing f with
  | nil => cases f <;> simp [unquoteF]
  | cons c t ih =>
    simp only [plain, List.all_cons, Bool.and_eq_true] at hs
    obtain ⟨h1, h2, h3, h4⟩ := plainByte_iff.mp hs.1
    cases f with
    | zero => simp at hf
    | succ f =>
      rw [unquoteF.eq_def]
      split
      · rename_i h; simp at h
      · rename_i h; simp at h
      · rename_i h; simp only [List.cons.injEq] at h; omega
      · rename_i h; simp only [List.cons.injEq] at h; omega
      · rename_i hf' h
        simp only [List.cons.injEq] at h
        obtain ⟨rfl, rfl⟩ := h
        simp only [Nat.succ_eq_add_one, Nat.add_right_cancel_iff] at hf'
        subst hf'
        rw [if_pos h2, ih hs.2 f (by simp only [List.length_cons] at hf; omega)]

theorem unquote_plain {s : Bytes} (hs : plain s = true) : unquote s = s :=
  unquoteF_plain hs _ (by omega)



/-- the first token of a value -/
def JVal.tok : JVal → Tok
  | .num lit => .num lit
  | .str s => .str s
  | .tru => .bool true
  | .fls => .bool false
  | .null => .null
  | .arr _ => .delim 91
  | .obj _ => .delim 123

def JVal.isScalar : JVal → Bool
  | .arr _ => false
  | .obj _ => false
  | _ => true

theorem scanScalar_str {s : Bytes} (hs : plain s = true) (rest : Bytes) :
    scanScalar (34 :: (s ++ 34 :: rest)) = .ok (.str s, rest) := by
  simp [scanScalar, scanString_plain hs, unquote_plain hs]

theorem scanScalar_true (rest : Bytes) : scanScalar (116 :: 114 :: 117 :: 101 :: rest) = .ok (.bool true, rest) := rfl
theorem scanScalar_false (rest : Bytes) :
    scanScalar (102 :: 97 :: 108 :: 115 :: 101 :: rest) = .ok (.bool false, rest) := rfl
theorem scanScalar_null (rest : Bytes) : scanScalar (110 :: 117 :: 108 :: 108 :: rest) = .ok (.null, rest) := rfl

theorem scanScalar_num {lit rest : Bytes} (hl : intLit lit = true) (hr : numEnd rest) :
    scanScalar (lit ++ rest) = .ok (.num lit, rest) := by
  obtain ⟨c, t, rfl, hc⟩ := intLit_head hl
  have hn := scanNumber_intLit hl hr
  have hc' : (c == 45 || isDigit c) = true := by
    rcases hc with rfl | h
    · rfl
    · simp [h]
  have hne : c ≠ 34 ∧ c ≠ 116 ∧ c ≠ 102 ∧ c ≠ 110 := by
    rcases hc with rfl | h
    · decide
    · simp only [isDigit, Bool.and_eq_true, decide_eq_true_eq] at h; omega
  rw [List.cons_append] at hn ⊢
  unfold scanScalar
  split
  · rename_i h; simp at h
  · rename_i h; simp only [List.cons.injEq] at h; omega
  · rename_i h; simp only [List.cons.injEq] at h; omega
  · rename_i h; simp only [List.cons.injEq] at h; omega
  · rename_i h; simp only [List.cons.injEq] at h; omega
  · rename_i c' t' _ _ _ _ h
    simp only [List.cons.injEq] at h
    obtain ⟨rfl, rfl⟩ := h
    rw [if_pos hc', hn]

/-- scalars: the scanner reads exactly the rendered text -/
theorem scanScalar_render {x : JVal} (hx : x.wf = true) (hs : x.isScalar = true) {rest : Bytes} (hr : numEnd rest) :
    scanScalar (x.render ++ rest) = .ok (x.tok, rest) := by
  cases x with
  | num lit => simp only [JVal.wf] at hx; exact scanScalar_num hx hr
  | str s =>
    simp only [JVal.wf] at hx
    simp only [JVal.render, JVal.tok, List.cons_append, List.append_assoc, List.nil_append]
    exact scanScalar_str hx rest
  | tru => exact scanScalar_true rest
  | fls => exact scanScalar_false rest
  | null => exact scanScalar_null rest
  | arr xs => simp [JVal.isScalar] at hs
  | obj ms => simp [JVal.isScalar] at hs

/-- the first byte of a rendered scalar -/
theorem render_scalarStart {x : JVal} (hx : x.wf = true) (hs : x.isScalar = true) :
    ∃ c t, x.render = c :: t ∧ scalarStart c := by
  cases x with
  | num lit =>
    simp only [JVal.wf] at hx
    obtain ⟨c, t, rfl, hc⟩ := intLit_head hx
    refine ⟨c, t, rfl, ?_⟩
    rcases hc with rfl | h
    · exact ⟨by decide, by decide⟩
    · simp only [isDigit, Bool.and_eq_true, decide_eq_true_eq] at h
      refine ⟨?_, by omega, by omega, by omega, by omega, by omega, by omega⟩
      simp [isSpace]; omega
  | str s => exact ⟨34, _, rfl, by decide, by decide⟩
  | tru => exact ⟨116, _, rfl, by decide, by decide⟩
  | fls => exact ⟨102, _, rfl, by decide, by decide⟩
  | null => exact ⟨110, _, rfl, by decide, by decide⟩
  | arr xs => simp [JVal.isScalar] at hs
  | obj ms => simp [JVal.isScalar] at hs



mutual
/-- number of tokens of a value -/
def JVal.ntok : JVal → Nat
  | .num _ => 1
  | .str _ => 1
  | .tru => 1
  | .fls => 1
  | .null => 1
  | .arr xs => 2 + ntokElems xs
  | .obj ms => 2 + ntokMembers ms
def ntokElems : List JVal → Nat
  | [] => 0
  | x :: xs => x.ntok + ntokElems xs
def ntokMembers : List (Bytes × JVal) → Nat
  | [] => 0
  | (_, x) :: ms => 1 + x.ntok + ntokMembers ms
end

theorem numEnd_cons {c : Nat} (t : Bytes) (h : c = 44 ∨ c = 93 ∨ c = 125) : numEnd (c :: t) := by
  intro c' t' heq
  simp only [List.cons.injEq] at heq
  obtain ⟨rfl, _⟩ := heq
  rcases h with rfl | rfl | rfl <;> decide

theorem numEnd_nil : numEnd [] := by intro c t h; simp at h

theorem skipLoop_congr {d d2 : Dec} (h : d.token = d2.token) (f depth : Nat) :
    skipLoop f depth d = skipLoop f depth d2 := by
  cases f with
  | zero => rfl
  | succ f => rw [skipLoop_succ, skipLoop_succ, h]

theorem skipLoop_scalar {f depth : Nat} {d d' : Dec} {tok : Tok} (ht : d.token = .ok (tok, d'))
    (hs : ∀ c, tok ≠ .delim c) (hd : 1 ≤ depth) : skipLoop (f + 1) depth d = skipLoop f depth d' := by
  rw [skipLoop_succ, ht]
  simp only
  rw [depthAfter_scalar hs, if_neg (by omega), Int.toNat_natCast]

theorem skipLoop_open {f depth : Nat} {d d' : Dec} {c : Nat} (ht : d.token = .ok (.delim c, d'))
    (hc : c = 91 ∨ c = 123) : skipLoop (f + 1) depth d = skipLoop f (depth + 1) d' := by
  rw [skipLoop_succ, ht]
  simp only
  rw [depthAfter_open hc, if_neg (by omega), Int.toNat_natCast]

theorem skipLoop_close {f depth : Nat} {d d' : Dec} {c : Nat} (ht : d.token = .ok (.delim c, d'))
    (hc : c = 93 ∨ c = 125) (hd : 1 ≤ depth) : skipLoop (f + 1) (depth + 1) d = skipLoop f depth d' := by
  rw [skipLoop_succ, ht]
  simp only
  rw [depthAfter_close hc, if_neg (by omega), Int.toNat_natCast]

theorem skipLoop_close_last {f : Nat} {d d' : Dec} {c : Nat} (ht : d.token = .ok (.delim c, d'))
    (hc : c = 93 ∨ c = 125) : skipLoop (f + 1) 1 d = .ok d' := by
  rw [skipLoop_succ, ht]
  simp only
  rw [depthAfter_close (depth := 0) hc]
  simp

/-- the token read at the start of a rendered scalar, where a value is allowed -/
theorem token_scalar {x : JVal} (hx : x.wf = true) (hs : x.isScalar = true) {rest : Bytes} (hr : numEnd rest)
    {st : TState} (hst : valueAllowed st = true) (S : List TState) :
    Dec.token ⟨x.render ++ rest, st, S⟩ = .ok (x.tok, ⟨rest, valueEnd st, S⟩) := by
  obtain ⟨c, t, hct, hc⟩ := render_scalarStart hx hs
  have h := scanScalar_render hx hs hr
  rw [hct, List.cons_append] at h ⊢
  exact tokenF_scalar hc hst h

theorem tok_not_delim {x : JVal} (hs : x.isScalar = true) : ∀ c, x.tok ≠ .delim c := by
  cases x <;> simp [JVal.isScalar] at hs <;> simp [JVal.tok]

/-- the key token -/
theorem token_key_plain {k : Bytes} (hk : plain k = true) (rest : Bytes) {st : TState}
    (hst : st = .objectStart ∨ st = .objectKey) (S : List TState) :
    Dec.token ⟨34 :: (k ++ 34 :: rest), st, S⟩ = .ok (.str k, ⟨rest, .objectColon, S⟩) :=
  tokenF_key hst (scanScalar_str hk rest)


theorem skip_closeArr {f depth : Nat} {rest : Bytes} {st p : TState} {S : List TState}
    (hst : st = .arrayStart ∨ st = .arrayComma) (hd : 1 ≤ depth) :
    skipLoop (f + 1) (depth + 1) ⟨93 :: rest, st, p :: S⟩ = skipLoop f depth ⟨rest, valueEnd p, S⟩ :=
  skipLoop_close (tokenF_closeArr hst) (.inl rfl) hd

theorem skip_closeObj {f depth : Nat} {rest : Bytes} {st p : TState} {S : List TState}
    (hst : st = .objectStart ∨ st = .objectComma) (hd : 1 ≤ depth) :
    skipLoop (f + 1) (depth + 1) ⟨125 :: rest, st, p :: S⟩ = skipLoop f depth ⟨rest, valueEnd p, S⟩ :=
  skipLoop_close (tokenF_closeObj hst) (.inr rfl) hd

mutual
/-- inside the skip loop a rendered value, wherever a value is allowed, is consumed completely, token by
token, and leaves the depth counter where it was -/
theorem skip_value : ∀ (x : JVal), x.wf = true → ∀ (f depth : Nat) (st : TState) (S : List TState) (rest : Bytes),
    valueAllowed st = true → 1 ≤ depth → numEnd rest →
    skipLoop (f + x.ntok) depth ⟨x.render ++ rest, st, S⟩ = skipLoop f depth ⟨rest, valueEnd st, S⟩
  | .num lit, hx, f, depth, st, S, rest, hst, hd, hr =>
    skipLoop_scalar (token_scalar hx rfl hr hst S) (tok_not_delim rfl) hd
  | .str s, hx, f, depth, st, S, rest, hst, hd, hr =>
    skipLoop_scalar (token_scalar hx rfl hr hst S) (tok_not_delim rfl) hd
  | .tru, hx, f, depth, st, S, rest, hst, hd, hr =>
    skipLoop_scalar (token_scalar hx rfl hr hst S) (tok_not_delim rfl) hd
  | .fls, hx, f, depth, st, S, rest, hst, hd, hr =>
    skipLoop_scalar (token_scalar hx rfl hr hst S) (tok_not_delim rfl) hd
  | .null, hx, f, depth, st, S, rest, hst, hd, hr =>
    skipLoop_scalar (token_scalar hx rfl hr hst S) (tok_not_delim rfl) hd
  | .arr [], hx, f, depth, st, S, rest, hst, hd, hr => by
    simp only [JVal.render, JVal.ntok, ntokElems, renderElems, List.nil_append, List.cons_append]
    rw [show f + (2 + 0) = (f + 1) + 1 by omega]
    rw [skipLoop_open (tokenF_open (.inl rfl) hst) (.inl rfl)]
    simp only [if_true]
    exact skip_closeArr (.inl rfl) hd
  | .arr (x :: xs), hx, f, depth, st, S, rest, hst, hd, hr => by
    simp only [JVal.wf, wfElems, Bool.and_eq_true] at hx
    simp only [JVal.render, JVal.ntok, ntokElems, renderElems, List.cons_append, List.append_assoc, List.nil_append]
    rw [show f + (2 + (x.ntok + ntokElems xs)) = ((f + 1 + ntokElems xs) + x.ntok) + 1 by omega]
    rw [skipLoop_open (tokenF_open (.inl rfl) hst) (.inl rfl)]
    simp only [if_true]
    rw [skip_value x hx.1 _ _ _ _ _ rfl (by omega) (by cases xs <;> exact numEnd_cons _ (by simp))]
    simp only [valueEnd]
    rw [skip_elems xs hx.2 _ _ _ _ (by omega)]
    exact skip_closeArr (.inr rfl) hd
  | .obj [], hx, f, depth, st, S, rest, hst, hd, hr => by
    simp only [JVal.render, JVal.ntok, ntokMembers, renderMembers, List.nil_append, List.cons_append]
    rw [show f + (2 + 0) = (f + 1) + 1 by omega]
    rw [skipLoop_open (tokenF_open (.inr rfl) hst) (.inr rfl)]
    simp only [show (123 : Nat) ≠ 91 by decide, if_false]
    exact skip_closeObj (.inl rfl) hd
  | .obj ((k, x) :: ms), hx, f, depth, st, S, rest, hst, hd, hr => by
    simp only [JVal.wf, wfMembers, Bool.and_eq_true] at hx
    simp only [JVal.render, JVal.ntok, ntokMembers, renderMembers, List.cons_append, List.append_assoc, List.nil_append]
    rw [show f + (2 + (1 + x.ntok + ntokMembers ms)) = (((f + 1 + ntokMembers ms) + x.ntok) + 1) + 1 by omega]
    rw [skipLoop_open (tokenF_open (.inr rfl) hst) (.inr rfl)]
    simp only [show (123 : Nat) ≠ 91 by decide, if_false]
    rw [skipLoop_scalar (token_key_plain hx.1.1 _ (.inl rfl) _) (by simp) (by omega)]
    rw [skipLoop_congr (token_colon _ _)]
    rw [skip_value x hx.1.2 _ _ _ _ _ rfl (by omega) (by cases ms <;> exact numEnd_cons _ (by simp))]
    simp only [valueEnd]
    rw [skip_members ms hx.2 _ _ _ _ (by omega)]
    exact skip_closeObj (.inr rfl) hd
/-- `,x1,x2…` in front of `]` -/
theorem skip_elems : ∀ (xs : List JVal), wfElems xs = true → ∀ (f depth : Nat) (S : List TState) (rest : Bytes),
    1 ≤ depth →
    skipLoop (f + ntokElems xs) depth ⟨renderElemsTail xs ++ 93 :: rest, .arrayComma, S⟩ =
      skipLoop f depth ⟨93 :: rest, .arrayComma, S⟩
  | [], _, f, depth, S, rest, hd => by simp [ntokElems, renderElemsTail]
  | x :: xs, hx, f, depth, S, rest, hd => by
    simp only [wfElems, Bool.and_eq_true] at hx
    simp only [ntokElems, renderElemsTail, List.cons_append, List.append_assoc]
    rw [show f + (x.ntok + ntokElems xs) = (f + ntokElems xs) + x.ntok by omega]
    rw [skipLoop_congr (token_commaArr _ _)]
    rw [skip_value x hx.1 _ _ _ _ _ rfl hd (by cases xs <;> exact numEnd_cons _ (by simp))]
    exact skip_elems xs hx.2 _ _ _ _ hd
/-- `,"k1":x1…` in front of `}` -/
theorem skip_members : ∀ (ms : List (Bytes × JVal)), wfMembers ms = true →
    ∀ (f depth : Nat) (S : List TState) (rest : Bytes), 1 ≤ depth →
    skipLoop (f + ntokMembers ms) depth ⟨renderMembersTail ms ++ 125 :: rest, .objectComma, S⟩ =
      skipLoop f depth ⟨125 :: rest, .objectComma, S⟩
  | [], _, f, depth, S, rest, hd => by simp [ntokMembers, renderMembersTail]
  | (k, x) :: ms, hx, f, depth, S, rest, hd => by
    simp only [wfMembers, Bool.and_eq_true] at hx
    simp only [ntokMembers, renderMembersTail, List.cons_append, List.append_assoc]
    rw [show f + (1 + x.ntok + ntokMembers ms) = ((f + ntokMembers ms) + x.ntok) + 1 by omega]
    rw [skipLoop_congr (token_commaObj _ _)]
    rw [skipLoop_scalar (token_key_plain hx.1.1 _ (.inr rfl) _) (by simp) hd]
    rw [skipLoop_congr (token_colon _ _)]
    rw [skip_value x hx.1.2 _ _ _ _ _ rfl hd (by cases ms <;> exact numEnd_cons _ (by simp))]
    exact skip_members ms hx.2 _ _ _ _ hd
end


theorem intLit_ne_nil {lit : Bytes} (h : intLit lit = true) : 1 ≤ lit.length := by
  obtain ⟨c, t, rfl, _⟩ := intLit_head h
  simp

mutual
theorem ntok_le : ∀ (x : JVal), x.wf = true → x.ntok ≤ x.render.length
  | .num lit, hx => by simpa [JVal.ntok, JVal.render] using intLit_ne_nil hx
  | .str s, _ => by simp [JVal.ntok, JVal.render]
  | .tru, _ => by simp [JVal.ntok, JVal.render]
  | .fls, _ => by simp [JVal.ntok, JVal.render]
  | .null, _ => by simp [JVal.ntok, JVal.render]
  | .arr [], _ => by simp [JVal.ntok, JVal.render, ntokElems, renderElems]
  | .arr (x :: xs), hx => by
    simp only [JVal.wf, wfElems, Bool.and_eq_true] at hx
    have h1 := ntok_le x hx.1
    have h2 := ntokElems_le xs hx.2
    simp only [JVal.ntok, JVal.render, ntokElems, renderElems, List.length_cons, List.length_append,
      List.length_nil]
    omega
  | .obj [], _ => by simp [JVal.ntok, JVal.render, ntokMembers, renderMembers]
  | .obj ((k, x) :: ms), hx => by
    simp only [JVal.wf, wfMembers, Bool.and_eq_true] at hx
    have h1 := ntok_le x hx.1.2
    have h2 := ntokMembers_le ms hx.2
    simp only [JVal.ntok, JVal.render, ntokMembers, renderMembers, List.length_cons, List.length_append,
      List.length_nil]
    omega
theorem ntokElems_le : ∀ (xs : List JVal), wfElems xs = true → ntokElems xs ≤ (renderElemsTail xs).length
  | [], _ => by simp [ntokElems]
  | x :: xs, hx => by
    simp only [wfElems, Bool.and_eq_true] at hx
    have h1 := ntok_le x hx.1
    have h2 := ntokElems_le xs hx.2
    simp only [ntokElems, renderElemsTail, List.length_cons, List.length_append]
    omega
theorem ntokMembers_le : ∀ (ms : List (Bytes × JVal)), wfMembers ms = true →
    ntokMembers ms ≤ (renderMembersTail ms).length
  | [], _ => by simp [ntokMembers]
  | (k, x) :: ms, hx => by
    simp only [wfMembers, Bool.and_eq_true] at hx
    have h1 := ntok_le x hx.1.2
    have h2 := ntokMembers_le ms hx.2
    simp only [ntokMembers, renderMembersTail, List.length_cons, List.length_append]
    omega
end

/-- `decodeAndSkipNested` on `:` followed by any rendered value, of any nesting -/
theorem skipNested_render {x : JVal} (hx : x.wf = true) {rest : Bytes} (hr : numEnd rest) (S : List TState) :
    decodeAndSkipNested ⟨58 :: (x.render ++ rest), .objectColon, S⟩ = .ok ⟨rest, .objectComma, S⟩ := by
  unfold decodeAndSkipNested
  rw [token_colon]
  by_cases hs : x.isScalar = true
  · rw [token_scalar hx hs hr rfl S]
    have := tok_not_delim hs
    cases x <;> simp [JVal.isScalar] at hs <;> simp [JVal.tok, valueEnd]
  · cases x with
    | arr xs =>
      simp only [JVal.render, List.cons_append, List.append_assoc, List.nil_append]
      have ht : Dec.token ⟨91 :: (renderElems xs ++ 93 :: rest), .objectValue, S⟩ = _ :=
        tokenF_open (.inl rfl) rfl
      rw [ht]
      simp only [if_true]
      cases xs with
      | nil =>
        simp only [renderElems, List.nil_append]
        exact skipLoop_close_last (tokenF_closeArr (.inl rfl)) (.inl rfl)
      | cons y ys =>
        simp only [JVal.wf, wfElems, Bool.and_eq_true] at hx
        have h1 := ntok_le y hx.1
        have h2 := ntokElems_le ys hx.2
        simp only [renderElems, List.append_assoc, List.length_append, List.length_cons]
        generalize hF : y.render.length + ((renderElemsTail ys).length + (rest.length + 1)) + 1 = F
        obtain ⟨f, rfl⟩ : ∃ f, F = ((f + 1) + ntokElems ys) + y.ntok := ⟨F - 1 - ntokElems ys - y.ntok, by omega⟩
        rw [skip_value y hx.1 _ _ _ _ _ rfl (by omega) (by cases ys <;> exact numEnd_cons _ (by simp))]
        simp only [valueEnd]
        rw [skip_elems ys hx.2 _ _ _ _ (by omega)]
        exact skipLoop_close_last (tokenF_closeArr (.inr rfl)) (.inl rfl)
    | obj ms =>
      simp only [JVal.render, List.cons_append, List.append_assoc, List.nil_append]
      have ht : Dec.token ⟨123 :: (renderMembers ms ++ 125 :: rest), .objectValue, S⟩ = _ :=
        tokenF_open (.inr rfl) rfl
      rw [ht]
      simp only [show (123 : Nat) ≠ 91 by decide, if_false]
      cases ms with
      | nil =>
        simp only [renderMembers, List.nil_append]
        exact skipLoop_close_last (tokenF_closeObj (.inl rfl)) (.inr rfl)
      | cons m ms =>
        obtain ⟨k, y⟩ := m
        simp only [JVal.wf, wfMembers, Bool.and_eq_true] at hx
        have h1 := ntok_le y hx.1.2
        have h2 := ntokMembers_le ms hx.2
        simp only [renderMembers, List.append_assoc, List.length_append, List.length_cons, List.cons_append]
        generalize hF : k.length + (y.render.length + ((renderMembersTail ms).length + (rest.length + 1)) + 1 + 1) + 1 + 1 = F
        obtain ⟨f, rfl⟩ : ∃ f, F = (((f + 1) + ntokMembers ms) + y.ntok) + 1 :=
          ⟨F - 1 - ntokMembers ms - y.ntok - 1, by omega⟩
        rw [skipLoop_scalar (token_key_plain hx.1.1 _ (.inl rfl) _) (by simp) (by omega)]
        rw [skipLoop_congr (token_colon _ _)]
        rw [skip_value y hx.1.2 _ _ _ _ _ rfl (by omega) (by cases ms <;> exact numEnd_cons _ (by simp))]
        simp only [valueEnd]
        rw [skip_members ms hx.2 _ _ _ _ (by omega)]
        exact skipLoop_close_last (tokenF_closeObj (.inr rfl)) (.inr rfl)
    | _ => simp [JVal.isScalar] at hs



theorem keyValue_eq : keyValue = Gen.size_ObjectKeyValue := by decide
theorem keyUnit_eq : keyUnit = Gen.size_ObjectKeyUnit := by decide

theorem finish_eq (v : Option Nat) (u : Option Bytes) : finish v u = newOrError v u := by
  unfold finish newOrError
  split <;> rfl

/-- what `decodeValue` makes of a rendered member value -/
theorem decodeValue_render {x : JVal} (hx : x.wf = true) {rest : Bytes} (hr : numEnd rest) (S : List TState) :
    decodeValue ⟨58 :: (x.render ++ rest), .objectColon, S⟩ =
      (match x.abs with
        | .num lit => parseUintLit lit
        | _ => .err .invalidType).map (·, ⟨rest, .objectComma, S⟩) := by
  unfold decodeValue
  rw [token_colon]
  by_cases hs : x.isScalar = true
  · rw [token_scalar hx hs hr rfl S]
    cases x <;> simp [JVal.isScalar] at hs <;> simp [JVal.tok, JVal.abs, valueEnd, Outcome.map]
  · cases x with
    | arr xs =>
      simp only [JVal.render, List.cons_append]
      have ht : Dec.token ⟨91 :: (renderElems xs ++ [93] ++ rest), .objectValue, S⟩ = _ :=
        tokenF_open (.inl rfl) rfl
      rw [ht]; simp [JVal.abs, Outcome.map]
    | obj ms =>
      simp only [JVal.render, List.cons_append]
      have ht : Dec.token ⟨123 :: (renderMembers ms ++ [125] ++ rest), .objectValue, S⟩ = _ :=
        tokenF_open (.inr rfl) rfl
      rw [ht]; simp [JVal.abs, Outcome.map]
    | _ => simp [JVal.isScalar] at hs

theorem decodeUnit_render {x : JVal} (hx : x.wf = true) {rest : Bytes} (hr : numEnd rest) (S : List TState) :
    decodeUnit ⟨58 :: (x.render ++ rest), .objectColon, S⟩ =
      match x.abs with
        | .str s => .ok (s, ⟨rest, .objectComma, S⟩)
        | _ => .err .invalidType := by
  unfold decodeUnit
  rw [token_colon]
  by_cases hs : x.isScalar = true
  · rw [token_scalar hx hs hr rfl S]
    cases x <;> simp [JVal.isScalar] at hs <;> simp [JVal.tok, JVal.abs, valueEnd]
  · cases x with
    | arr xs =>
      simp only [JVal.render, List.cons_append]
      have ht : Dec.token ⟨91 :: (renderElems xs ++ [93] ++ rest), .objectValue, S⟩ = _ :=
        tokenF_open (.inl rfl) rfl
      rw [ht]; simp [JVal.abs]
    | obj ms =>
      simp only [JVal.render, List.cons_append]
      have ht : Dec.token ⟨123 :: (renderMembers ms ++ [125] ++ rest), .objectValue, S⟩ = _ :=
        tokenF_open (.inr rfl) rfl
      rw [ht]; simp [JVal.abs]
    | _ => simp [JVal.isScalar] at hs


/-- one round of the member loop on a member whose key token is `k` and whose value the three readers
treat as the rendered value `x` -/
theorem objectLoop_step {mk : Nat} {du : Bool} {f i : Nat} {d d1 d2 : Dec} {v : Option Nat} {u : Option Bytes}
    {k : Bytes} {x : JVal}
    (hlim : ¬(mk ≠ 0 ∧ i > mk)) (hm : d.more = true) (ht : d.token = .ok (.str k, d1))
    (hv : decodeValue d1 = (match x.abs with
        | .num lit => parseUintLit lit
        | _ => .err .invalidType).map (·, d2))
    (hu : decodeUnit d1 = match x.abs with
        | .str s => .ok (s, d2)
        | _ => .err .invalidType)
    (hs : decodeAndSkipNested d1 = .ok d2) :
    objectLoop mk du (f + 1) i d v u =
      match step du v u (k, x.abs) with
      | .ok (v', u') => objectLoop mk du f (i + 1) d2 v' u'
      | .err e => .err e
      | .panic => .panic := by
  simp only [objectLoop, if_neg hlim, hm, Bool.not_true, Bool.false_eq_true, if_false, ht]
  unfold step kind
  simp only [← keyValue_eq, ← keyUnit_eq, beq_iff_eq]
  by_cases h1 : lowerKey k = keyValue
  · simp only [h1, if_true]
    cases v with
    | some n => simp
    | none =>
      simp only [Option.isSome_none, Bool.false_eq_true, if_false, hv]
      cases hx : x.abs with
      | num lit =>
        simp only
        cases parseUintLit lit <;> simp [Outcome.map]
      | str s => simp [Outcome.map]
      | other => simp [Outcome.map]
  · simp only [h1, if_false]
    by_cases h2 : lowerKey k = keyUnit
    · simp only [h2, if_true]
      cases u with
      | some n => simp
      | none =>
        simp only [Option.isSome_none, Bool.false_eq_true, if_false, hu]
        cases hx : x.abs <;> simp
    · simp only [h2, if_false]
      cases du <;> simp [hs]


theorem more_cons {c : Nat} (t : Bytes) (st : TState) (S : List TState) (hc : isSpace c = false) :
    Dec.more ⟨c :: t, st, S⟩ = (c != 93 && c != 125) := by
  simp [Dec.more, skipSpace_cons t hc]

theorem numEnd_membersTail (ms : List (Bytes × JVal)) (rest : Bytes) :
    numEnd (renderMembersTail ms ++ 125 :: rest) := by
  cases ms with
  | nil => exact numEnd_cons _ (by simp)
  | cons m ms => obtain ⟨k, x⟩ := m; exact numEnd_cons _ (by simp)

theorem objectLoop_end {mk : Nat} {du : Bool} (f i : Nat) (v : Option Nat) (u : Option Bytes) (rest : Bytes)
    (st : TState) (S : List TState) :
    objectLoop mk du (f + 1) i ⟨125 :: rest, st, S⟩ v u =
      (evalLoop mk du i v u []).map (·, ⟨125 :: rest, st, S⟩) := by
  have hm : Dec.more ⟨125 :: rest, st, S⟩ = false := by rw [more_cons _ _ _ (by decide)]; rfl
  simp only [objectLoop, evalLoop, hm, Bool.not_false, if_true, finish_eq]
  split <;> rfl

/-- 7, loop: after the first member the loop on `,"k":x…` in front of `}` computes `evalLoop` and stops at
the brace -/
theorem objectLoop_tail {mk : Nat} {du : Bool} (ms : List (Bytes × JVal)) (hms : wfMembers ms = true)
    (f i : Nat) (v : Option Nat) (u : Option Bytes) (rest : Bytes) (S : List TState) (hf : ms.length + 1 ≤ f) :
    objectLoop mk du f i ⟨renderMembersTail ms ++ 125 :: rest, .objectComma, S⟩ v u =
      (evalLoop mk du i v u (absMembers ms)).map (·, ⟨125 :: rest, .objectComma, S⟩) := by
  induction ms generalizing f i v u with
  | nil =>
    obtain ⟨f, rfl⟩ : ∃ f', f = f' + 1 := ⟨f - 1, by simp at hf; omega⟩
    simp only [renderMembersTail, List.nil_append, absMembers, List.map_nil]
    exact objectLoop_end f i v u rest _ S
  | cons m ms ih =>
    obtain ⟨k, x⟩ := m
    obtain ⟨f, rfl⟩ : ∃ f', f = f' + 1 := ⟨f - 1, by simp at hf; omega⟩
    simp only [wfMembers, Bool.and_eq_true] at hms
    simp only [renderMembersTail, List.cons_append, List.append_assoc, absMembers, List.map_cons, evalLoop]
    by_cases hlim : mk ≠ 0 ∧ i > mk
    · simp [objectLoop, hlim, Outcome.map]
    · have hr := numEnd_membersTail ms rest
      rw [if_neg hlim]
      rw [objectLoop_step (x := x) hlim (by rw [more_cons _ _ _ (by decide)]; rfl)
        ((token_commaObj _ _).trans (token_key_plain hms.1.1 _ (.inr rfl) _))
        (decodeValue_render hms.1.2 hr S) (decodeUnit_render hms.1.2 hr S) (skipNested_render hms.1.2 hr S)]
      cases step du v u (k, x.abs) with
      | ok p =>
        obtain ⟨v', u'⟩ := p
        simp only
        exact ih hms.2 f (i + 1) v' u' (by simp at hf ⊢; omega)
      | err e => rfl
      | panic => rfl

/-- 7: the member loop started after `{` on `"k":x,…` in front of `}` computes `evalLoop` -/
theorem objectLoop_render {mk : Nat} {du : Bool} (ms : List (Bytes × JVal)) (hms : wfMembers ms = true)
    (f i : Nat) (v : Option Nat) (u : Option Bytes) (rest : Bytes) (S : List TState) (hf : ms.length + 1 ≤ f) :
    objectLoop mk du f i ⟨renderMembers ms ++ 125 :: rest, .objectStart, S⟩ v u =
      (evalLoop mk du i v u (absMembers ms)).map
        (·, ⟨125 :: rest, if ms = [] then .objectStart else .objectComma, S⟩) := by
  cases ms with
  | nil =>
    obtain ⟨f, rfl⟩ : ∃ f', f = f' + 1 := ⟨f - 1, by simp at hf; omega⟩
    simp only [renderMembers, List.nil_append, absMembers, List.map_nil, if_true]
    exact objectLoop_end f i v u rest _ S
  | cons m ms =>
    obtain ⟨k, x⟩ := m
    obtain ⟨f, rfl⟩ : ∃ f', f = f' + 1 := ⟨f - 1, by simp at hf; omega⟩
    simp only [wfMembers, Bool.and_eq_true] at hms
    simp only [renderMembers, List.cons_append, List.append_assoc, absMembers, List.map_cons, evalLoop,
      reduceCtorEq, if_false]
    by_cases hlim : mk ≠ 0 ∧ i > mk
    · simp [objectLoop, hlim, Outcome.map]
    · have hr := numEnd_membersTail ms rest
      rw [if_neg hlim]
      rw [objectLoop_step (x := x) hlim (by rw [more_cons _ _ _ (by decide)]; rfl)
        (token_key_plain hms.1.1 _ (.inl rfl) _)
        (decodeValue_render hms.1.2 hr S) (decodeUnit_render hms.1.2 hr S) (skipNested_render hms.1.2 hr S)]
      cases step du v u (k, x.abs) with
      | ok p =>
        obtain ⟨v', u'⟩ := p
        simp only
        exact objectLoop_tail ms hms.2 f (i + 1) v' u' rest S (by simp at hf ⊢; omega)
      | err e => rfl
      | panic => rfl


theorem length_le_membersTail (ms : List (Bytes × JVal)) : ms.length ≤ (renderMembersTail ms).length := by
  induction ms with
  | nil => simp
  | cons m ms ih =>
    obtain ⟨k, x⟩ := m
    simp only [renderMembersTail, List.length_cons, List.length_append]
    omega

theorem length_le_members (ms : List (Bytes × JVal)) : ms.length ≤ (renderMembers ms).length := by
  cases ms with
  | nil => simp
  | cons m ms =>
    obtain ⟨k, x⟩ := m
    have := length_le_membersTail ms
    simp only [renderMembers, List.length_cons, List.length_append]
    omega

theorem expectEOF_space {ws : Bytes} (hws : allSpace ws = true) (S : List TState) :
    expectEOF ⟨ws, .topValue, S⟩ = .ok () :=
  (expectEOF_ok_iff (d := ⟨ws, .topValue, S⟩) rfl).mpr hws

/-- 7: on the compact text of an object (optionally followed by white space) the JSON reader computes
`evalMembers` of its members -/
theorem unmarshalJSON_renderObject {mk : Nat} {r : Rule} (ms : List (Bytes × JVal)) (hms : wfMembers ms = true)
    (hr : r.jsonObject = true) {ws : Bytes} (hws : allSpace ws = true) :
    unmarshalJSON mk r (renderObject ms ++ ws) = evalMembers mk r.disallowUnknown (absMembers ms) := by
  have hs : renderObject ms ++ ws = 123 :: (renderMembers ms ++ 125 :: ws) := by
    simp [renderObject]
  have ht : (Dec.init (renderObject ms ++ ws)).token =
      .ok (.delim 123, ⟨renderMembers ms ++ 125 :: ws, .objectStart, [.topValue]⟩) := by
    rw [hs]
    exact tokenF_open (.inr rfl) rfl
  rw [unmarshalJSON_object ht hr]
  have hf : ms.length + 1 ≤ (renderObject ms ++ ws).length + 2 := by
    have := length_le_members ms
    rw [hs]
    simp only [List.length_cons, List.length_append]
    omega
  rw [objectLoop_render ms hms _ 0 none none ws [.topValue] hf]
  unfold evalMembers
  cases evalLoop mk r.disallowUnknown 0 none none (absMembers ms) with
  | err e => rfl
  | panic => rfl
  | ok z =>
    simp only [Outcome.map]
    have hc : Dec.token ⟨125 :: ws, if ms = [] then .objectStart else .objectComma, [.topValue]⟩ =
        .ok (.delim 125, ⟨ws, .topValue, []⟩) := by
      by_cases h : ms = []
      · rw [if_pos h]; exact tokenF_closeObj (.inl rfl)
      · rw [if_neg h]; exact tokenF_closeObj (.inr rfl)
    rw [hc]
    simp only [expectEOF_space hws]

theorem parse_renderObject {maxLen mk : Nat} {r : Rule} (ms : List (Bytes × JVal)) (hms : wfMembers ms = true)
    (hr : r.jsonObject = true) (hl : maxLen = 0 ∨ (renderObject ms).length ≤ maxLen) :
    parse maxLen mk r (renderObject ms) = evalMembers mk r.disallowUnknown (absMembers ms) := by
  rw [parse_json_mode _ _ _ _ (.inr hr), if_neg (by omega)]
  have := unmarshalJSON_renderObject (mk := mk) ms hms hr (ws := []) rfl
  rwa [List.append_nil] at this

/-- the scalar forms on rendered text: a number literal and a string are read by the text rules -/
theorem unmarshalJSON_render_num {mk : Nat} {r : Rule} {lit : Bytes} (hl : intLit lit = true) :
    unmarshalJSON mk r lit = unmarshalText false lit := by
  have ht : (Dec.init lit).token = .ok (.num lit, ⟨[], .topValue, []⟩) := by
    have := token_scalar (x := .num lit) hl rfl numEnd_nil (st := .topValue) rfl []
    simpa [JVal.render, JVal.tok, valueEnd, Dec.init] using this
  exact (number_form ht).1 rfl

theorem unmarshalJSON_render_str {mk : Nat} {r : Rule} {s : Bytes} (hs : plain s = true)
    (hr : r.jsonString = true) :
    unmarshalJSON mk r (34 :: (s ++ [34])) = unmarshalText false s := by
  have ht : (Dec.init (34 :: (s ++ [34]))).token = .ok (.str s, ⟨[], .topValue, []⟩) := by
    have := token_scalar (x := .str s) hs rfl numEnd_nil (st := .topValue) rfl []
    simpa [JVal.render, JVal.tok, valueEnd, Dec.init] using this
  exact (string_form ht hr).1 rfl


end U.Props.C12
