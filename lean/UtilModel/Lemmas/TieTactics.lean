/-!
# Tactics for the code ties (`Lemmas/CodeTies*.lean`)

`tools/extract/translate.go` translates straight-line Go decision functions (`if … return` chains,
`switch` on a tag) statement by statement into `Gen.*` definitions on every run. The tie lemmas show
that the hand-written model functions — the ones all property theorems are about — compute the same
results, by deciding the equality of the two if-chains (`ifchain`: split every condition, close each
leaf with `omega`) or Boolean formulas (`boolprop`), not by syntactic identity, so that a harmless
rewrite of the source keeps them true.
-/
set_option linter.unusedSimpArgs false
namespace U.CodeTies

/-- decide an equality between two if-chains over linear integer conditions -/
macro "ifchain" : tactic =>
  `(tactic| (simp only [decide_eq_true_eq, Bool.and_eq_true, Bool.or_eq_true, beq_iff_eq, bne_iff_ne, ne_eq]
             try (repeat' split)
             all_goals first | rfl | omega | (simp_all; done) | (simp_all; omega)))

/-- Boolean combinations of (in)equalities: compare them as propositions -/
macro "boolprop" : tactic =>
  `(tactic| (rw [Bool.eq_iff_iff]
             simp only [Bool.and_eq_true, Bool.or_eq_true, Bool.not_eq_true', beq_iff_eq, bne_iff_ne, ne_eq,
               decide_eq_true_eq, beq_eq_false_iff_ne]
             omega))

/-- an if-chain of Booleans, as a proposition: split every condition, decide each leaf arithmetically -/
macro "ifprop" : tactic =>
  `(tactic| (try simp only [decide_eq_true_eq, Bool.and_eq_true, Bool.or_eq_true, Bool.not_eq_true', beq_iff_eq, bne_iff_ne, ne_eq,
               beq_eq_false_iff_ne, decide_eq_false_iff_not]
             try (repeat' split)
             all_goals first
               | omega
               | (simp only [Bool.false_eq_true, false_iff, true_iff, iff_false, iff_true, decide_eq_true_eq, Bool.and_eq_true,
                    Bool.or_eq_true, beq_iff_eq, bne_iff_ne, ne_eq, Bool.not_eq_true', beq_eq_false_iff_ne, decide_eq_false_iff_not]; omega)
               | (simp_all; done) | (simp_all; omega)))

end U.CodeTies
