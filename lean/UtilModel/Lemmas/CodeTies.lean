import UtilModel.Model.Date
import UtilModel.Model.Sem
import UtilModel.Model.UU
import UtilModel.Model.Roman
import UtilModel.Model.TestKit
import UtilModel.Lemmas.Calendar
/-!
# The hand-written model agrees with the decision functions translated from the source

`tools/extract/translate.go` translates straight-line Go decision functions (`if … return` chains,
`switch` on a tag) statement by statement into `Gen.*` definitions on every run. The lemmas below show
that the hand-written model functions — the ones all property theorems are about — compute the same
results, by deciding the equality of the two if-chains (`ifchain`: split every condition, close each
leaf with `omega`), not by syntactic identity, so a harmless rewrite of the source keeps them true.
-/
namespace U.CodeTies
open U

/-- decide an equality between two if-chains over linear integer conditions -/
macro "ifchain" : tactic =>
  `(tactic| (simp only [decide_eq_true_eq, Bool.and_eq_true, Bool.or_eq_true, beq_iff_eq, bne_iff_ne, ne_eq]
             try (repeat' split)
             all_goals first | rfl | omega | (simp_all; done) | (simp_all; omega)))

theorem after_tie (d e : Date.Date) : d.after e = Gen.date_After d.year d.month d.day e.year e.month e.day := by
  unfold Date.Date.after Gen.date_After
  ifchain

theorem before_tie (d e : Date.Date) : d.before e = Gen.date_Before d.year d.month d.day e.year e.month e.day := by
  unfold Date.Date.before Gen.date_Before
  ifchain

/-- Boolean combinations of (in)equalities: compare them as propositions -/
macro "boolprop" : tactic =>
  `(tactic| (rw [Bool.eq_iff_iff]
             simp only [Bool.and_eq_true, Bool.or_eq_true, Bool.not_eq_true', beq_iff_eq, bne_iff_ne, ne_eq,
               decide_eq_true_eq, beq_eq_false_iff_ne]
             omega))

theorem equal_tie (d e : Date.Date) : d.equal e = Gen.date_Equal d.year d.month d.day e.year e.month e.day := by
  unfold Date.Date.equal Gen.date_Equal
  first | rfl | boolprop

theorem isZero_tie (d : Date.Date) : d.isZero = Gen.date_IsZero d.year d.month d.day := by
  unfold Date.Date.isZero Gen.date_IsZero
  first | rfl | boolprop

theorem compare_tie (v w : Sem.Ver) :
    v.compare w = Gen.sem_Compare Sem.comparePre v.major v.minor v.patch v.pre w.major w.minor w.patch w.pre := by
  unfold Sem.Ver.compare Gen.sem_Compare
  ifchain

theorem parseDigit_tie (c : Nat) (au : Bool) :
    UU.parseDigit c au = (if (Gen.uu_parseDigit c au).2 then some (Gen.uu_parseDigit c au).1 else none) := by
  unfold UU.parseDigit Gen.uu_parseDigit
  cases au <;> ifchain

theorem parseGroup_tie (input : Bytes) (unit d5 d10 : Nat) :
    Roman.parseGroup input unit d5 d10 = .ok (Gen.roman_parseGroup input unit d5 d10) := by
  unfold Roman.parseGroup Gen.roman_parseGroup Roman.eqCI
  match input with
  | [] => rfl
  | [a] =>
    simp only [List.length_cons, List.length_nil, List.getElem?_cons_zero, List.getD_eq_getElem?_getD, Option.getD_some]
    by_cases h : (a == d5 || a == d5 + 32) = true
    · have h' : (a == d5 || a == d5 + (97 - 65)) = true := h
      simp [h, h']
    · have h' : ¬ (a == d5 || a == d5 + (97 - 65)) = true := h
      simp [h, h']
  | a :: b :: t =>
    simp only [List.length_cons, List.getElem?_cons_zero, List.getElem?_cons_succ, List.getD_eq_getElem?_getD, Option.getD_some]
    have e32 : (97 - 65 : Nat) = 32 := rfl
    simp only [e32]
    have hl : ¬ (t.length + 1 + 1 = 0) := by omega
    have hl1 : ¬ (t.length + 1 + 1 = 1) := by omega
    simp only [hl, hl1, if_false, beq_iff_eq]
    repeat' split
    all_goals first | rfl | simp_all

theorem validDate_tie (y : Int) (m d : Nat) : Date.validDate y m d = Gen.date_validDate y m d := by
  unfold Date.validDate Gen.date_validDate GoTime.daysIn GoTime.daysInL GoTime.isLeap
  rw [Bool.eq_iff_iff]
  simp only [Bool.and_eq_true, Bool.or_eq_true, decide_eq_true_eq, beq_iff_eq, bne_iff_ne, ne_eq]
  repeat' split
  all_goals (simp only [Bool.false_eq_true, decide_eq_true_eq, iff_false, iff_true]; omega)

theorem isFor_tie (c : Nat) : TestKit.isForMarshal c = Gen.test_isForMarshal c ∧ TestKit.isForUnmarshal c = Gen.test_isForUnmarshal c := by
  unfold TestKit.isForMarshal TestKit.isForUnmarshal Gen.test_isForMarshal Gen.test_isForUnmarshal
  constructor <;> first | rfl | boolprop

end U.CodeTies
