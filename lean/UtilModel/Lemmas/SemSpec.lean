import UtilModel.Spec.SemVerOrder
import UtilModel.Lemmas.SemOrder
/-! # The comparator model agrees with the §11 specification outside the excluded region -/
namespace U.Sem
open U U.Props.C06

theorem isNumeric_eq (s : Bytes) : isNumeric s = isNum s := rfl

theorem cmpBytes_cons_eq (a : Nat) (as bs : Bytes) : cmpBytes (a :: as) (a :: bs) = cmpBytes as bs := by
  simp [cmpBytes]

/-- the byte loop equals `strings.Compare` unless the remainders after the common prefix are both
non-empty digit runs -/
theorem cmpAlnum_eq_cmpBytes (a b : Bytes)
    (h : (let r := stripCommon a b; !r.1.isEmpty && !r.2.isEmpty && allDigits r.1 && allDigits r.2) = false) :
    cmpAlnum a b = cmpBytes a b := by
  induction a generalizing b with
  | nil => cases b <;> rfl
  | cons x xs ih =>
    cases b with
    | nil => rfl
    | cons y ys =>
      simp only [cmpAlnum]
      by_cases hxy : x = y
      · subst hxy
        rw [if_pos rfl, cmpBytes_cons_eq]
        apply ih
        simpa [stripCommon] using h
      · rw [if_neg hxy]
        simp only [stripCommon, hxy, if_false, List.isEmpty_cons, Bool.not_false, Bool.true_and] at h
        unfold cmpSuffix
        rw [h]
        simp

theorem compareIdentifier_spec (a b : Bytes) (h : excludedIdent a b = false) :
    compareIdentifier a b = specIdent a b := by
  unfold compareIdentifier specIdent
  simp only [isNumeric_eq]
  have ha : isNum a = true ∨ isNum a = false := by cases isNum a <;> simp
  have hb : isNum b = true ∨ isNum b = false := by cases isNum b <;> simp
  rcases ha with ha | ha <;> rcases hb with hb | hb
  · simp only [ha, hb, bne_self_eq_false, Bool.false_eq_true, if_false, if_true, Bool.and_self]
    have hda : allDigits a = true := by simp only [isNum, Bool.and_eq_true] at ha; exact ha.2
    have hdb : allDigits b = true := by simp only [isNum, Bool.and_eq_true] at hb; exact hb.2
    have := cmpNumeric_spec a b hda hdb
    unfold cmpNumeric at this
    simp only at this
    rw [← this]
    split
    · rename_i hne
      unfold cmpNat
      by_cases hlt : (trimLeft0 a).length < (trimLeft0 b).length
      · simp [hlt]
      · have : (trimLeft0 b).length < (trimLeft0 a).length := by omega
        simp [hlt, this]
    · rfl
  · simp [ha, hb]
  · simp [ha, hb]
  · simp only [ha, hb, bne_self_eq_false, Bool.false_eq_true, if_false, Bool.and_self]
    apply cmpAlnum_eq_cmpBytes
    simpa [excludedIdent, ha, hb] using h

theorem specIdent_self (a : Bytes) : specIdent a a = 0 := by
  unfold specIdent cmpNat
  cases isNum a <;> simp [cmpBytes_refl]

theorem cmpIdents_spec (as bs : List Bytes) (h : excludedIdents as bs = false) :
    cmpIdents as bs = specIdents as bs := by
  induction as generalizing bs with
  | nil => cases bs <;> rfl
  | cons a as ih =>
    cases bs with
    | nil => rfl
    | cons b bs =>
      simp only [cmpIdents, specIdents]
      by_cases hab : a = b
      · subst hab
        simp only [excludedIdents, if_true] at h
        rw [compareIdentifier_refl, specIdent_self]
        simp only [ne_eq, not_true_eq_false, if_false]
        rw [← ih bs h]
        cases as <;> cases bs <;> simp [cmpIdents]
      · simp only [excludedIdents, hab, if_false, Bool.or_eq_false_iff, Bool.and_eq_false_iff] at h
        obtain ⟨hex, htail⟩ := h
        rw [compareIdentifier_spec a b hex]
        by_cases hz : specIdent a b = 0
        · rw [if_neg (by simpa using hz), if_neg (by simpa using hz)]
          have ht : excludedIdents as bs = false := by
            rcases htail with h1 | h1
            · simp [hz] at h1
            · exact h1
          rw [← ih bs ht]
          cases as <;> cases bs <;> simp [cmpIdents]
        · rw [if_pos hz, if_pos hz]


theorem comparePre_spec (a b : Bytes) (h : Excluded a b = false) : comparePre a b = specPre a b := by
  unfold comparePre specPre
  split
  · rfl
  · split
    · rfl
    · exact cmpIdents_spec _ _ h

theorem cmpBytes_eq_zero (a b : Bytes) (h : cmpBytes a b = 0) : a = b := by
  induction a generalizing b with
  | nil => cases b with
    | nil => rfl
    | cons _ _ => simp [cmpBytes] at h
  | cons x xs ih =>
    cases b with
    | nil => simp [cmpBytes] at h
    | cons y ys =>
      simp only [cmpBytes] at h
      split at h
      · simp at h
      · split at h
        · simp at h
        · have : x = y := by omega
          rw [this, ih ys h]

theorem trimLeft0_numIdent (s : Bytes) (h : isNumIdent s = true) : trimLeft0 s = s ∨ s = [48] := by
  unfold isNumIdent at h
  split at h
  · simp at h
  · right; rfl
  · rename_i c t _ _
    left
    simp only [Bool.and_eq_true, bne_iff_ne, ne_eq] at h
    unfold trimLeft0
    split
    · rename_i heq; simp only [List.cons.injEq] at heq; exact absurd heq.1.symm (fun e => h.1.1 e.symm)
    · rfl

/-- in valid pre-releases, identifiers that differ as text never compare equal under §11 -/
theorem specIdent_ne_zero_of_valid (a b : Bytes) (ha : isPreIdent a = true) (hb : isPreIdent b = true) (hab : a ≠ b) :
    specIdent a b ≠ 0 := by
  intro hz
  unfold specIdent at hz
  have hna : isNum a = true ∨ isNum a = false := by cases isNum a <;> simp
  have hnb : isNum b = true ∨ isNum b = false := by cases isNum b <;> simp
  rcases hna with hna | hna <;> rcases hnb with hnb | hnb
  · simp only [hna, hnb, Bool.and_self, if_true] at hz
    have hda : allDigits a = true := by simp only [isNum, Bool.and_eq_true] at hna; exact hna.2
    have hdb : allDigits b = true := by simp only [isNum, Bool.and_eq_true] at hnb; exact hnb.2
    have hia : isNumIdent a = true := by
      simp only [isPreIdent, Bool.and_eq_true, Bool.or_eq_true, Bool.not_eq_true'] at ha
      rcases ha.2 with h | h
      · rw [hda] at h; simp at h
      · exact h
    have hib : isNumIdent b = true := by
      simp only [isPreIdent, Bool.and_eq_true, Bool.or_eq_true, Bool.not_eq_true'] at hb
      rcases hb.2 with h | h
      · rw [hdb] at h; simp at h
      · exact h
    have hs := cmpNumeric_spec a b hda hdb
    rw [hz] at hs
    unfold cmpNumeric at hs
    simp only at hs
    split at hs
    · unfold cmpNat at hs
      split at hs
      · simp at hs
      · split at hs
        · simp at hs
        · rename_i h1 h2 h3; omega
    · have he := cmpBytes_eq_zero _ _ hs
      rcases trimLeft0_numIdent a hia with ta | ta <;> rcases trimLeft0_numIdent b hib with tb | tb
      · rw [ta, tb] at he; exact hab he
      · subst tb; rw [ta] at he; simp [trimLeft0] at he; subst he; simp [isNum] at hna
      · subst ta; rw [tb] at he; simp [trimLeft0] at he; subst he; simp [isNum] at hnb
      · subst ta; subst tb; exact hab rfl
  · simp [hna, hnb] at hz
  · simp [hna, hnb] at hz
  · simp only [hna, hnb, Bool.and_self, Bool.false_eq_true, if_false] at hz
    exact hab (cmpBytes_eq_zero _ _ hz)

end U.Sem
