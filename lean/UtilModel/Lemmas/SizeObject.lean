import UtilModel.Lemmas.JsonTokens
import UtilModel.Lemmas.SizeLimit
/-!
# The JSON object reader of package `size`: decoder-state invariants, totality, form gating

* 1(d) `skipLoop_restores`, `decodeAndSkipNested_restores`: skipping the value of an unknown member, of
  any nesting depth, fails or returns with `st = objectComma` and the stack as before the member.
* 2 `objectLoop_ne_panic` (invariant `AtMember`: at the top of every round `st ∈ {objectStart,
  objectComma}`), `unmarshalJSON_ne_panic`, `parse_ne_panic`; `objectLoop_final`: where a successful
  loop stops.
* 3/4 form gating (`parse_text_mode`, `parse_json_mode`, `unmarshalJSON_*`), `expectEOF_ok_iff`,
  `number_form`, `string_form`.
* 5 `unmarshalJSON_consumed`, `unmarshalJSON_trailing` (with `*_suffix`: the decoder only moves forward).
-/
namespace U.SizeObject
open U U.GoJson U.JsonTokens U.Size
open U.Props.C12 (allSpace restAfterValue)

/-- the depth counter of `decodeAndSkipNested` after a token -/
def depthAfter (t : Tok) (depth : Nat) : Int :=
  match t with
  | .delim c => if c == 123 || c == 91 then depth + 1 else (depth : Int) - 1
  | _ => depth

theorem skipLoop_succ (f depth : Nat) (d : Dec) :
    skipLoop (f + 1) depth d =
      match d.token with
      | .error e => .err (jerr e)
      | .ok (t, d') =>
        if depthAfter t depth = 0 then .ok d' else skipLoop f (depthAfter t depth).toNat d' := rfl

theorem depthAfter_open {c : Nat} (hc : c = 91 ∨ c = 123) (depth : Nat) :
    depthAfter (.delim c) depth = ((depth + 1 : Nat) : Int) := by
  rcases hc with rfl | rfl <;> simp [depthAfter]

theorem depthAfter_close {c : Nat} (hc : c = 93 ∨ c = 125) (depth : Nat) :
    depthAfter (.delim c) (depth + 1) = ((depth : Nat) : Int) := by
  rcases hc with rfl | rfl <;> simp [depthAfter]

theorem depthAfter_scalar {t : Tok} (h : ∀ c, t ≠ .delim c) (depth : Nat) :
    depthAfter t depth = ((depth : Nat) : Int) := by
  cases t <;> simp_all [depthAfter]

theorem skipLoop_ne_panic (f depth : Nat) (d : Dec) : skipLoop f depth d ≠ .panic := by
  induction f generalizing depth d with
  | zero => simp [skipLoop]
  | succ f ih =>
    rw [skipLoop_succ]
    split
    · simp
    · split
      · simp
      · exact ih _ _

/-- 1(d), loop: with `fs` frames above the member's own frame `objectValue` (so `depth = |fs| + 1`),
the skip loop can only stop right after the delimiter that pops that frame -/
theorem skipLoop_restores {f : Nat} {d d' : Dec} {fs S : List TState}
    (hs : d.stack = fs ++ .objectValue :: S)
    (h : skipLoop f (fs.length + 1) d = .ok d') : d'.st = .objectComma ∧ d'.stack = S := by
  induction f generalizing d fs with
  | zero => simp [skipLoop] at h
  | succ f ih =>
    rw [skipLoop_succ] at h
    split at h
    · simp at h
    · rename_i t d1 ht
      rcases token_stackStep ht with ⟨c, x, rfl, hc, hx⟩ | ⟨c, p, rfl, hc, hp, hst⟩ | ⟨hnd, hx⟩
      · -- opening delimiter: one more frame
        rw [depthAfter_open hc, if_neg (by omega), Int.toNat_natCast] at h
        exact ih (fs := x :: fs) (by simp [hx, hs]) h
      · -- closing delimiter: pops the innermost frame
        rw [depthAfter_close hc] at h
        cases fs with
        | nil =>
          simp only [List.nil_append] at hs
          rw [hs] at hp
          simp only [List.cons.injEq] at hp
          obtain ⟨rfl, rfl⟩ := hp
          simp only [List.length_nil, Int.natCast_zero, if_true, Outcome.ok.injEq] at h
          subst h
          exact ⟨hst, rfl⟩
        | cons x fs' =>
          rw [hs] at hp
          simp only [List.cons_append, List.cons.injEq] at hp
          simp only [List.length_cons] at h
          rw [if_neg (by omega), Int.toNat_natCast] at h
          exact ih hp.2.symm h
      · rw [depthAfter_scalar hnd, if_neg (by omega), Int.toNat_natCast] at h
        exact ih (by rw [hx, hs]) h

/-- 1(d): skipping the value of an unknown member — of any nesting depth — either fails or leaves the
decoder expecting `,`/`}` with the stack it had before the member -/
theorem decodeAndSkipNested_restores {d d' : Dec} (hst : d.st = .objectColon)
    (h : decodeAndSkipNested d = .ok d') : d'.st = .objectComma ∧ d'.stack = d.stack := by
  unfold decodeAndSkipNested at h
  split at h
  · simp at h
  · rename_i c d1 ht
    rcases token_value hst ht with ⟨_, _, hs⟩ | ⟨_, _, hs⟩ | ⟨hnd, _, _⟩
    · exact skipLoop_restores (fs := []) (by simpa using hs) h
    · exact skipLoop_restores (fs := []) (by simpa using hs) h
    · exact absurd rfl (hnd c)
  · rename_i t d1 hnd ht
    simp only [Outcome.ok.injEq] at h
    subst h
    rcases token_value hst ht with ⟨rfl, _, hs⟩ | ⟨rfl, _, hs⟩ | ⟨_, h1, h2⟩
    · exact (hnd _ rfl).elim
    · exact (hnd _ rfl).elim
    · exact ⟨h1, h2⟩

theorem decodeAndSkipNested_ne_panic (d : Dec) : decodeAndSkipNested d ≠ .panic := by
  unfold decodeAndSkipNested
  split
  · simp
  · exact skipLoop_ne_panic _ _ _
  · simp


theorem parseUintLit_ne_panic (l : Bytes) : parseUintLit l ≠ .panic := by
  unfold parseUintLit
  repeat' split
  all_goals simp

theorem newSize_ne_panic (v : Nat) (u : Bytes) : newSize v u ≠ .panic := by
  unfold newSize
  repeat' split
  all_goals simp

theorem newOrError_ne_panic (v : Option Nat) (u : Option Bytes) : newOrError v u ≠ .panic := by
  unfold newOrError
  split
  · simp
  · simp
  · exact newSize_ne_panic _ _

theorem decodeValue_ne_panic (d : Dec) : decodeValue d ≠ .panic := by
  unfold decodeValue
  split
  · simp
  · unfold Outcome.map
    have := parseUintLit_ne_panic ‹_›
    split <;> simp_all
  · simp

theorem decodeUnit_ne_panic (d : Dec) : decodeUnit d ≠ .panic := by
  unfold decodeUnit
  split <;> simp

theorem decodeValue_state {d d' : Dec} {v : Nat} (hst : d.st = .objectColon)
    (h : decodeValue d = .ok (v, d')) : d'.st = .objectComma ∧ d'.stack = d.stack := by
  unfold decodeValue at h
  split at h
  · simp at h
  · rename_i lit d1 ht
    unfold Outcome.map at h
    split at h
    · simp only [Outcome.ok.injEq, Prod.mk.injEq] at h
      obtain ⟨_, rfl⟩ := h
      rcases token_value hst ht with ⟨h0, _⟩ | ⟨h0, _⟩ | ⟨_, h1, h2⟩
      · simp at h0
      · simp at h0
      · exact ⟨h1, h2⟩
    · simp at h
    · simp at h
  · simp at h

theorem decodeUnit_state {d d' : Dec} {u : Bytes} (hst : d.st = .objectColon)
    (h : decodeUnit d = .ok (u, d')) : d'.st = .objectComma ∧ d'.stack = d.stack := by
  unfold decodeUnit at h
  split at h
  · simp at h
  · rename_i s d1 ht
    simp only [Outcome.ok.injEq, Prod.mk.injEq] at h
    obtain ⟨_, rfl⟩ := h
    rcases token_value hst ht with ⟨h0, _⟩ | ⟨h0, _⟩ | ⟨_, h1, h2⟩
    · simp at h0
    · simp at h0
    · exact ⟨h1, h2⟩
  · simp at h

/-- the loop invariant: at the top of every iteration the decoder is where a key or `}` is expected -/
def AtMember (d : Dec) : Prop := d.st = .objectStart ∨ d.st = .objectComma

/-- 2: the type assertion `t.(string)` in the member loop cannot fail -/
theorem objectLoop_ne_panic (mk : Nat) (du : Bool) (f i : Nat) (d : Dec) (v : Option Nat) (u : Option Bytes)
    (hst : AtMember d) : objectLoop mk du f i d v u ≠ .panic := by
  induction f generalizing i d v u with
  | zero => simp [objectLoop]
  | succ f ih =>
    simp only [objectLoop]
    split
    · simp
    · split
      · unfold Outcome.map
        have := newOrError_ne_panic v u
        split <;> simp_all
      · rename_i hm
        simp only [Bool.not_eq_true', Bool.not_eq_false] at hm
        split
        · simp
        · rename_i key d1 ht
          have hk := token_key (.inl ⟨hst, hm⟩) ht
          split
          · split
            · simp
            · have := decodeValue_ne_panic d1
              split
              · rename_i hv
                exact ih _ _ _ _ (.inr (decodeValue_state hk.2.1 hv).1)
              · simp
              · simp_all
          · split
            · split
              · simp
              · have := decodeUnit_ne_panic d1
                split
                · rename_i hv
                  exact ih _ _ _ _ (.inr (decodeUnit_state hk.2.1 hv).1)
                · simp
                · simp_all
            · split
              · simp
              · have := decodeAndSkipNested_ne_panic d1
                split
                · rename_i hv
                  exact ih _ _ _ _ (.inr (decodeAndSkipNested_restores hk.2.1 hv).1)
                · simp
                · simp_all
        · rename_i t d1 hns ht
          obtain ⟨tok, d1'⟩ := d1
          obtain ⟨⟨s, rfl⟩, _⟩ := token_key (.inl ⟨hst, hm⟩) ht
          exact (hns _ _ rfl).elim


/-- when the member loop succeeds it stops where a key or `}` is expected, at the nesting level it
started at, in front of a byte that is not the start of a member (`More` is false) -/
theorem objectLoop_final {mk : Nat} {du : Bool} {f i : Nat} {d : Dec} {v : Option Nat} {u : Option Bytes}
    {z : Nat} {d1 : Dec} (hst : AtMember d) (h : objectLoop mk du f i d v u = .ok (z, d1)) :
    AtMember d1 ∧ d1.stack = d.stack ∧ d1.more = false := by
  induction f generalizing i d v u with
  | zero => simp [objectLoop] at h
  | succ f ih =>
    simp only [objectLoop] at h
    split at h
    · simp at h
    · split at h
      · rename_i hm
        simp only [Bool.not_eq_true', ] at hm
        unfold Outcome.map at h
        split at h
        · simp only [Outcome.ok.injEq, Prod.mk.injEq] at h
          obtain ⟨_, rfl⟩ := h
          exact ⟨hst, rfl, hm⟩
        · simp at h
        · simp at h
      · rename_i hm
        simp only [Bool.not_eq_true', Bool.not_eq_false] at hm
        split at h
        · simp at h
        · rename_i key d0 ht
          have hk := token_key (.inl ⟨hst, hm⟩) ht
          split at h
          · split at h
            · simp at h
            · split at h
              · rename_i hv
                have h2 := decodeValue_state hk.2.1 hv
                have := ih (.inr h2.1) h
                exact ⟨this.1, by rw [this.2.1, h2.2, hk.2.2], this.2.2⟩
              · simp at h
              · simp at h
          · split at h
            · split at h
              · simp at h
              · split at h
                · rename_i hv
                  have h2 := decodeUnit_state hk.2.1 hv
                  have := ih (.inr h2.1) h
                  exact ⟨this.1, by rw [this.2.1, h2.2, hk.2.2], this.2.2⟩
                · simp at h
                · simp at h
            · split at h
              · simp at h
              · split at h
                · rename_i hv
                  have h2 := decodeAndSkipNested_restores hk.2.1 hv
                  have := ih (.inr h2.1) h
                  exact ⟨this.1, by rw [this.2.1, h2.2, hk.2.2], this.2.2⟩
                · simp at h
                · simp at h
        · simp at h

theorem unmarshalText_ne_panic (du : Bool) (s : Bytes) : unmarshalText du s ≠ .panic := by
  unfold unmarshalText
  simp only
  repeat' split
  all_goals first | (simp; done) | exact newSize_ne_panic _ _

theorem expectEOF_ne_panic (d : Dec) : expectEOF d ≠ .panic := by
  unfold expectEOF
  split <;> simp

theorem unmarshalJSON_ne_panic (mk : Nat) (r : Rule) (s : Bytes) : unmarshalJSON mk r s ≠ .panic := by
  unfold unmarshalJSON
  split
  · simp
  · rename_i c d ht
    split
    · simp
    · rename_i hc
      simp only [bne_iff_ne, ne_eq, Decidable.not_not] at hc
      subst hc
      split
      · simp
      · have hd : AtMember d := by
          rcases token_top (d := Dec.init s) rfl ht with ⟨h0, _⟩ | ⟨_, h1, _⟩ | ⟨h0, _⟩
          · simp at h0
          · exact .inl h1
          · exact (h0 _ rfl).elim
        have := objectLoop_ne_panic mk r.disallowUnknown (s.length + 2) 0 d none none hd
        split
        · simp
        · simp_all
        · split
          · simp
          · simp
          · unfold Outcome.map
            have := expectEOF_ne_panic ‹_›
            split <;> simp_all
          · simp
  · unfold Outcome.bind
    have := expectEOF_ne_panic ‹_›
    split
    · exact unmarshalText_ne_panic _ _
    · simp
    · simp_all
  · split
    · simp
    · unfold Outcome.bind
      have := expectEOF_ne_panic ‹_›
      split
      · exact unmarshalText_ne_panic _ _
      · simp
      · simp_all
  · simp

theorem parse_ne_panic (maxLen mk : Nat) (r : Rule) (s : Bytes) : parse maxLen mk r s ≠ .panic := by
  unfold parse
  split
  · simp
  · split
    · exact unmarshalJSON_ne_panic _ _ _
    · exact unmarshalText_ne_panic _ _



/-! ## form gating -/

theorem parse_text_mode (maxLen mk : Nat) (r : Rule) (s : Bytes)
    (h1 : r.jsonString = false) (h2 : r.jsonObject = false) :
    parse maxLen mk r s =
      if maxLen ≠ 0 ∧ s.length > maxLen then .err .tooLong else unmarshalText r.disableUnit s := by
  unfold parse
  simp [h1, h2]

theorem parse_json_mode (maxLen mk : Nat) (r : Rule) (s : Bytes)
    (h : r.jsonString = true ∨ r.jsonObject = true) :
    parse maxLen mk r s =
      if maxLen ≠ 0 ∧ s.length > maxLen then .err .tooLong else unmarshalJSON mk r s := by
  unfold parse
  have : (r.jsonString || r.jsonObject) = true := by rcases h with h | h <;> simp [h]
  simp [this]

theorem unmarshalJSON_token_error {mk : Nat} {r : Rule} {s : Bytes} {e : JErr}
    (ht : (Dec.init s).token = .error e) : unmarshalJSON mk r s = .err (jerr e) := by
  unfold unmarshalJSON; rw [ht]

theorem unmarshalJSON_not_object {mk : Nat} {r : Rule} {s : Bytes} {c : Nat} {d : Dec}
    (ht : (Dec.init s).token = .ok (.delim c, d)) (hc : c ≠ 123) :
    unmarshalJSON mk r s = .err .expectedObject := by
  unfold unmarshalJSON; rw [ht]; simp [hc]

theorem unmarshalJSON_object_disabled {mk : Nat} {r : Rule} {s : Bytes} {d : Dec}
    (ht : (Dec.init s).token = .ok (.delim 123, d)) (hr : r.jsonObject = false) :
    unmarshalJSON mk r s = .err .objectDisabled := by
  unfold unmarshalJSON; rw [ht]; simp [hr]

theorem unmarshalJSON_string_disabled {mk : Nat} {r : Rule} {s t : Bytes} {d : Dec}
    (ht : (Dec.init s).token = .ok (.str t, d)) (hr : r.jsonString = false) :
    unmarshalJSON mk r s = .err .stringDisabled := by
  unfold unmarshalJSON; rw [ht]; simp [hr]

theorem unmarshalJSON_bool {mk : Nat} {r : Rule} {s : Bytes} {b : Bool} {d : Dec}
    (ht : (Dec.init s).token = .ok (.bool b, d)) : unmarshalJSON mk r s = .err .invalidType := by
  unfold unmarshalJSON; rw [ht]

theorem unmarshalJSON_null {mk : Nat} {r : Rule} {s : Bytes} {d : Dec}
    (ht : (Dec.init s).token = .ok (.null, d)) : unmarshalJSON mk r s = .err .invalidType := by
  unfold unmarshalJSON; rw [ht]

theorem unmarshalJSON_number {mk : Nat} {r : Rule} {s lit : Bytes} {d : Dec}
    (ht : (Dec.init s).token = .ok (.num lit, d)) :
    unmarshalJSON mk r s = (expectEOF d).bind fun _ => unmarshalText false lit := by
  unfold unmarshalJSON; rw [ht]

theorem unmarshalJSON_string {mk : Nat} {r : Rule} {s t : Bytes} {d : Dec}
    (ht : (Dec.init s).token = .ok (.str t, d)) (hr : r.jsonString = true) :
    unmarshalJSON mk r s = (expectEOF d).bind fun _ => unmarshalText false t := by
  unfold unmarshalJSON; rw [ht]; simp [hr]

theorem unmarshalJSON_object {mk : Nat} {r : Rule} {s : Bytes} {d : Dec}
    (ht : (Dec.init s).token = .ok (.delim 123, d)) (hr : r.jsonObject = true) :
    unmarshalJSON mk r s =
      match objectLoop mk r.disallowUnknown (s.length + 2) 0 d none none with
      | .err e => .err e
      | .panic => .panic
      | .ok (size, d1) =>
        match d1.token with
        | .error .eof => .err .unexpectedData
        | .error e => .err (jerr e)
        | .ok (.delim 125, d2) => (expectEOF d2).map fun _ => size
        | .ok _ => .err .unexpectedData := by
  unfold unmarshalJSON; rw [ht]; simp only [bne_self_eq_false, Bool.false_eq_true, if_false, hr, Bool.not_true]; rfl

/-! ## end of input -/

/-- `expectEOF` at the top level: success exactly when only white space is left; otherwise the error
is `unexpectedData` (another token follows) or the tokenizer's own error -/
theorem expectEOF_ok_iff {d : Dec} (hst : d.st = .topValue) :
    expectEOF d = .ok () ↔ allSpace d.rest = true := by
  obtain ⟨rest, st, S⟩ := d
  simp only at hst; subst hst
  rw [← token_topValue_eof (S := S)]
  unfold expectEOF
  split
  · rename_i h; simp [h]
  · rename_i e hne h
    simp only [reduceCtorEq, false_iff, h, Except.error.injEq]
    intro he; exact hne he
  · rename_i h; simp [h]

theorem expectEOF_cases (d : Dec) :
    expectEOF d = .ok () ∨ expectEOF d = .err .unexpectedData ∨
      ∃ e, d.token = .error e ∧ e ≠ .eof ∧ expectEOF d = .err (jerr e) := by
  unfold expectEOF
  split
  · exact .inl rfl
  · rename_i e hne h
    exact .inr (.inr ⟨e, h, fun he => hne he, rfl⟩)
  · exact .inr (.inl rfl)

/-- the decoder after the first token of a scalar top-level value -/
theorem first_scalar_state {s : Bytes} {tok : Tok} {d : Dec} (ht : (Dec.init s).token = .ok (tok, d))
    (hs : ∀ c, tok ≠ .delim c) : d.st = .topValue ∧ d.stack = [] := by
  rcases token_top (d := Dec.init s) rfl ht with ⟨h0, _⟩ | ⟨h0, _⟩ | ⟨_, h1, h2⟩
  · exact (hs _ h0).elim
  · exact (hs _ h0).elim
  · exact ⟨h1, h2⟩

theorem first_object_state {s : Bytes} {d : Dec} (ht : (Dec.init s).token = .ok (.delim 123, d)) :
    d.st = .objectStart ∧ d.stack = [.topValue] := by
  rcases token_top (d := Dec.init s) rfl ht with ⟨h0, _⟩ | ⟨_, h1, h2⟩ | ⟨h0, _⟩
  · simp at h0
  · exact ⟨h1, h2⟩
  · exact (h0 _ rfl).elim

/-- 4: a leading number literal is read by the text rules when nothing but white space follows … -/
theorem number_form {mk : Nat} {r : Rule} {s lit : Bytes} {d : Dec}
    (ht : (Dec.init s).token = .ok (.num lit, d)) :
    (allSpace d.rest = true → unmarshalJSON mk r s = unmarshalText false lit) ∧
    (allSpace d.rest = false → unmarshalJSON mk r s = .err .unexpectedData ∨
        ∃ e, d.token = .error e ∧ e ≠ .eof ∧ unmarshalJSON mk r s = .err (jerr e)) := by
  rw [unmarshalJSON_number ht]
  have hst := (first_scalar_state ht (by simp)).1
  constructor
  · intro h
    rw [(expectEOF_ok_iff hst).mpr h]; rfl
  · intro h
    rcases expectEOF_cases d with h1 | h1 | ⟨e, he, hne, h1⟩
    · rw [(expectEOF_ok_iff hst).mp h1] at h; simp at h
    · left; rw [h1]; rfl
    · right; exact ⟨e, he, hne, by rw [h1]; rfl⟩

theorem string_form {mk : Nat} {r : Rule} {s t : Bytes} {d : Dec}
    (ht : (Dec.init s).token = .ok (.str t, d)) (hr : r.jsonString = true) :
    (allSpace d.rest = true → unmarshalJSON mk r s = unmarshalText false t) ∧
    (allSpace d.rest = false → unmarshalJSON mk r s = .err .unexpectedData ∨
        ∃ e, d.token = .error e ∧ e ≠ .eof ∧ unmarshalJSON mk r s = .err (jerr e)) := by
  rw [unmarshalJSON_string ht hr]
  have hst := (first_scalar_state ht (by simp)).1
  constructor
  · intro h
    rw [(expectEOF_ok_iff hst).mpr h]; rfl
  · intro h
    rcases expectEOF_cases d with h1 | h1 | ⟨e, he, hne, h1⟩
    · rw [(expectEOF_ok_iff hst).mp h1] at h; simp at h
    · left; rw [h1]; rfl
    · right; exact ⟨e, he, hne, by rw [h1]; rfl⟩


/-! ## the decoder only moves forward -/

theorem decodeValue_suffix {d d' : Dec} {v : Nat} (h : decodeValue d = .ok (v, d')) : d'.rest <:+ d.rest := by
  unfold decodeValue at h
  split at h
  · simp at h
  · rename_i lit d1 ht
    unfold Outcome.map at h
    split at h
    · simp only [Outcome.ok.injEq, Prod.mk.injEq] at h
      obtain ⟨_, rfl⟩ := h
      exact (token_shorter ht).1
    · simp at h
    · simp at h
  · simp at h

theorem decodeUnit_suffix {d d' : Dec} {u : Bytes} (h : decodeUnit d = .ok (u, d')) : d'.rest <:+ d.rest := by
  unfold decodeUnit at h
  split at h
  · simp at h
  · rename_i s d1 ht
    simp only [Outcome.ok.injEq, Prod.mk.injEq] at h
    obtain ⟨_, rfl⟩ := h
    exact (token_shorter ht).1
  · simp at h

theorem skipLoop_suffix {f depth : Nat} {d d' : Dec} (h : skipLoop f depth d = .ok d') : d'.rest <:+ d.rest := by
  induction f generalizing depth d with
  | zero => simp [skipLoop] at h
  | succ f ih =>
    rw [skipLoop_succ] at h
    split at h
    · simp at h
    · rename_i t d1 ht
      have h1 := (token_shorter ht).1
      split at h
      · simp only [Outcome.ok.injEq] at h; subst h; exact h1
      · exact (ih h).trans h1

theorem decodeAndSkipNested_suffix {d d' : Dec} (h : decodeAndSkipNested d = .ok d') : d'.rest <:+ d.rest := by
  unfold decodeAndSkipNested at h
  split at h
  · simp at h
  · rename_i c d1 ht
    exact (skipLoop_suffix h).trans (token_shorter ht).1
  · rename_i t d1 hnd ht
    simp only [Outcome.ok.injEq] at h
    subst h
    exact (token_shorter ht).1

theorem objectLoop_suffix {mk : Nat} {du : Bool} {f i : Nat} {d : Dec} {v : Option Nat} {u : Option Bytes}
    {z : Nat} {d1 : Dec} (h : objectLoop mk du f i d v u = .ok (z, d1)) : d1.rest <:+ d.rest := by
  induction f generalizing i d v u with
  | zero => simp [objectLoop] at h
  | succ f ih =>
    simp only [objectLoop] at h
    split at h
    · simp at h
    · split at h
      · unfold Outcome.map at h
        split at h
        · simp only [Outcome.ok.injEq, Prod.mk.injEq] at h
          obtain ⟨_, rfl⟩ := h
          exact List.suffix_refl _
        · simp at h
        · simp at h
      · split at h
        · simp at h
        · rename_i key d0 ht
          have hk := (token_shorter ht).1
          split at h
          · split at h
            · simp at h
            · split at h
              · rename_i hv
                exact ((ih h).trans (decodeValue_suffix hv)).trans hk
              · simp at h
              · simp at h
          · split at h
            · split at h
              · simp at h
              · split at h
                · rename_i hv
                  exact ((ih h).trans (decodeUnit_suffix hv)).trans hk
                · simp at h
                · simp at h
            · split at h
              · simp at h
              · split at h
                · rename_i hv
                  exact ((ih h).trans (decodeAndSkipNested_suffix hv)).trans hk
                · simp at h
                · simp at h
        · simp at h

/-! ## exactly one value -/

/-- 5: acceptance means the whole input was consumed: the value was read to its end (an object up to
and including its `}`), what is left is a proper suffix of the input, and it is only white space -/
theorem unmarshalJSON_consumed {mk : Nat} {r : Rule} {s : Bytes} {z : Nat}
    (h : unmarshalJSON mk r s = .ok z) :
    ∃ rest, restAfterValue mk r s = some rest ∧ allSpace rest = true ∧ rest <:+ s ∧ rest.length < s.length := by
  unfold unmarshalJSON at h
  unfold restAfterValue
  split at h
  · simp at h
  · rename_i c d ht
    rw [ht]
    simp only
    split at h
    · simp at h
    · rename_i hc
      rw [if_neg hc]
      simp only [bne_iff_ne, ne_eq, Decidable.not_not] at hc
      subst hc
      split at h
      · simp at h
      · have hd := first_object_state ht
        split at h
        · simp at h
        · simp at h
        · rename_i size d1 hl
          rw [hl]
          simp only
          have hf := objectLoop_final (.inl hd.1) hl
          split at h
          · simp at h
          · simp at h
          · rename_i d2 ht2
            rw [ht2]
            simp only
            have hst2 : d2.st = .topValue := by
              rcases token_stackStep ht2 with ⟨c, x, h0, hc, _⟩ | ⟨c, p, _, _, hp, hst⟩ | ⟨h0, _⟩
              · simp only [Tok.delim.injEq] at h0; subst h0; omega
              · rw [hf.2.1, hd.2] at hp
                simp only [List.cons.injEq] at hp
                rw [hst, ← hp.1]; rfl
              · exact (h0 _ rfl).elim
            have he : expectEOF d2 = .ok () := by
              unfold Outcome.map at h
              split at h
              · rename_i a ha; cases a; exact ha
              · simp at h
              · simp at h
            refine ⟨_, rfl, (expectEOF_ok_iff hst2).mp he, ?_, ?_⟩
            · exact ((token_shorter ht2).1.trans (objectLoop_suffix hl)).trans (token_shorter ht).1
            · have h1 := (token_shorter ht2).2
              have h2 := (objectLoop_suffix hl).length_le
              have h3 := (token_shorter ht).2
              simp only [Dec.init] at h3
              omega
          · simp at h
  · rename_i lit d ht
    rw [ht]
    simp only
    have hst := (first_scalar_state ht (by simp)).1
    have he : expectEOF d = .ok () := by
      unfold Outcome.bind at h
      split at h
      · rename_i a ha; cases a; exact ha
      · simp at h
      · simp at h
    exact ⟨_, rfl, (expectEOF_ok_iff hst).mp he, (token_shorter ht).1, (token_shorter ht).2⟩
  · rename_i t d ht
    rw [ht]
    simp only
    have hst := (first_scalar_state ht (by simp)).1
    split at h
    · simp at h
    · have he : expectEOF d = .ok () := by
        unfold Outcome.bind at h
        split at h
        · rename_i a ha; cases a; exact ha
        · simp at h
        · simp at h
      exact ⟨_, rfl, (expectEOF_ok_iff hst).mp he, (token_shorter ht).1, (token_shorter ht).2⟩
  · simp at h


/-- … and trailing data after a complete value is always rejected -/
theorem unmarshalJSON_trailing {mk : Nat} {r : Rule} {s rest : Bytes}
    (hr : restAfterValue mk r s = some rest) (hs : allSpace rest = false) :
    ∃ e, unmarshalJSON mk r s = .err e := by
  cases h : unmarshalJSON mk r s with
  | ok z =>
    obtain ⟨rest', h1, h2, _⟩ := unmarshalJSON_consumed h
    rw [hr] at h1
    simp only [Option.some.injEq] at h1
    subst h1
    rw [h2] at hs; simp at hs
  | err e => exact ⟨e, rfl⟩
  | panic => exact (unmarshalJSON_ne_panic _ _ _ h).elim

end U.SizeObject
