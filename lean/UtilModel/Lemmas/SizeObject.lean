import UtilModel.Lemmas.JsonTokens
import UtilModel.Lemmas.SizeLimit
/-!
# The JSON object reader of package `size`: decoder-state invariants, totality, form gating
-/
namespace U.Size
open U U.GoJson

/-- the depth counter of `decodeAndSkipNested` after a token -/
def depthAfter (t : Tok) (depth : Nat) : Int :=
  match t with
  | .delim c => if c == 123 || c == 91 then depth + 1 else (depth : Int) - 1
  | _ => depth

theorem skipLoop_succ (f depth : Nat) (d : Dec) :
    skipLoop (f + 1) depth d =
      match d.token with
      | .error e => .err (jerr e)
      | .ok (t, d') =>
        if depthAfter t depth = 0 then .ok d' else skipLoop f (depthAfter t depth).toNat d' := rfl

theorem depthAfter_open {c : Nat} (hc : c = 91 ∨ c = 123) (depth : Nat) :
    depthAfter (.delim c) depth = ((depth + 1 : Nat) : Int) := by
  rcases hc with rfl | rfl <;> simp [depthAfter]

theorem depthAfter_close {c : Nat} (hc : c = 93 ∨ c = 125) (depth : Nat) :
    depthAfter (.delim c) (depth + 1) = ((depth : Nat) : Int) := by
  rcases hc with rfl | rfl <;> simp [depthAfter]

theorem depthAfter_scalar {t : Tok} (h : ∀ c, t ≠ .delim c) (depth : Nat) :
    depthAfter t depth = ((depth : Nat) : Int) := by
  cases t <;> simp_all [depthAfter]

theorem skipLoop_ne_panic (f depth : Nat) (d : Dec) : skipLoop f depth d ≠ .panic := by
  induction f generalizing depth d with
  | zero => simp [skipLoop]
  | succ f ih =>
    rw [skipLoop_succ]
    split
    · simp
    · split
      · simp
      · exact ih _ _

/-- 1(d), loop: with `fs` frames above the member's own frame `objectValue` (so `depth = |fs| + 1`),
the skip loop can only stop right after the delimiter that pops that frame -/
theorem skipLoop_restores {f : Nat} {d d' : Dec} {fs S : List TState}
    (hs : d.stack = fs ++ .objectValue :: S)
    (h : skipLoop f (fs.length + 1) d = .ok d') : d'.st = .objectComma ∧ d'.stack = S := by
  induction f generalizing d fs with
  | zero => simp [skipLoop] at h
  | succ f ih =>
    rw [skipLoop_succ] at h
    split at h
    · simp at h
    · rename_i t d1 ht
      rcases token_stackStep ht with ⟨c, x, rfl, hc, hx⟩ | ⟨c, p, rfl, hc, hp, hst⟩ | ⟨hnd, hx⟩
      · -- opening delimiter: one more frame
        rw [depthAfter_open hc, if_neg (by omega), Int.toNat_natCast] at h
        exact ih (fs := x :: fs) (by simp [hx, hs]) h
      · -- closing delimiter: pops the innermost frame
        rw [depthAfter_close hc] at h
        cases fs with
        | nil =>
          simp only [List.nil_append] at hs
          rw [hs] at hp
          simp only [List.cons.injEq] at hp
          obtain ⟨rfl, rfl⟩ := hp
          simp only [List.length_nil, Int.natCast_zero, if_true, Outcome.ok.injEq] at h
          subst h
          exact ⟨hst, rfl⟩
        | cons x fs' =>
          rw [hs] at hp
          simp only [List.cons_append, List.cons.injEq] at hp
          simp only [List.length_cons] at h
          rw [if_neg (by omega), Int.toNat_natCast] at h
          exact ih hp.2.symm h
      · rw [depthAfter_scalar hnd, if_neg (by omega), Int.toNat_natCast] at h
        exact ih (by rw [hx, hs]) h

/-- 1(d): skipping the value of an unknown member — of any nesting depth — either fails or leaves the
decoder expecting `,`/`}` with the stack it had before the member -/
theorem decodeAndSkipNested_restores {d d' : Dec} (hst : d.st = .objectColon)
    (h : decodeAndSkipNested d = .ok d') : d'.st = .objectComma ∧ d'.stack = d.stack := by
  unfold decodeAndSkipNested at h
  split at h
  · simp at h
  · rename_i c d1 ht
    rcases token_value hst ht with ⟨_, _, hs⟩ | ⟨_, _, hs⟩ | ⟨hnd, _, _⟩
    · exact skipLoop_restores (fs := []) (by simpa using hs) h
    · exact skipLoop_restores (fs := []) (by simpa using hs) h
    · exact absurd rfl (hnd c)
  · rename_i t d1 hnd ht
    simp only [Outcome.ok.injEq] at h
    subst h
    rcases token_value hst ht with ⟨rfl, _, hs⟩ | ⟨rfl, _, hs⟩ | ⟨_, h1, h2⟩
    · exact (hnd _ rfl).elim
    · exact (hnd _ rfl).elim
    · exact ⟨h1, h2⟩

theorem decodeAndSkipNested_ne_panic (d : Dec) : decodeAndSkipNested d ≠ .panic := by
  unfold decodeAndSkipNested
  split
  · simp
  · exact skipLoop_ne_panic _ _ _
  · simp


theorem parseUintLit_ne_panic (l : Bytes) : parseUintLit l ≠ .panic := by
  unfold parseUintLit
  repeat' split
  all_goals simp

theorem newSize_ne_panic (v : Nat) (u : Bytes) : newSize v u ≠ .panic := by
  unfold newSize
  repeat' split
  all_goals simp

theorem newOrError_ne_panic (v : Option Nat) (u : Option Bytes) : newOrError v u ≠ .panic := by
  unfold newOrError
  split
  · simp
  · simp
  · exact newSize_ne_panic _ _

theorem decodeValue_ne_panic (d : Dec) : decodeValue d ≠ .panic := by
  unfold decodeValue
  split
  · simp
  · unfold Outcome.map
    have := parseUintLit_ne_panic ‹_›
    split <;> simp_all
  · simp

theorem decodeUnit_ne_panic (d : Dec) : decodeUnit d ≠ .panic := by
  unfold decodeUnit
  split <;> simp

theorem decodeValue_state {d d' : Dec} {v : Nat} (hst : d.st = .objectColon)
    (h : decodeValue d = .ok (v, d')) : d'.st = .objectComma ∧ d'.stack = d.stack := by
  unfold decodeValue at h
  split at h
  · simp at h
  · rename_i lit d1 ht
    unfold Outcome.map at h
    split at h
    · simp only [Outcome.ok.injEq, Prod.mk.injEq] at h
      obtain ⟨_, rfl⟩ := h
      rcases token_value hst ht with ⟨h0, _⟩ | ⟨h0, _⟩ | ⟨_, h1, h2⟩
      · simp at h0
      · simp at h0
      · exact ⟨h1, h2⟩
    · simp at h
    · simp at h
  · simp at h

theorem decodeUnit_state {d d' : Dec} {u : Bytes} (hst : d.st = .objectColon)
    (h : decodeUnit d = .ok (u, d')) : d'.st = .objectComma ∧ d'.stack = d.stack := by
  unfold decodeUnit at h
  split at h
  · simp at h
  · rename_i s d1 ht
    simp only [Outcome.ok.injEq, Prod.mk.injEq] at h
    obtain ⟨_, rfl⟩ := h
    rcases token_value hst ht with ⟨h0, _⟩ | ⟨h0, _⟩ | ⟨_, h1, h2⟩
    · simp at h0
    · simp at h0
    · exact ⟨h1, h2⟩
  · simp at h

/-- the loop invariant: at the top of every iteration the decoder is where a key or `}` is expected -/
def AtMember (d : Dec) : Prop := d.st = .objectStart ∨ d.st = .objectComma

/-- 2: the type assertion `t.(string)` in the member loop cannot fail -/
theorem objectLoop_ne_panic (mk : Nat) (du : Bool) (f i : Nat) (d : Dec) (v : Option Nat) (u : Option Bytes)
    (hst : AtMember d) : objectLoop mk du f i d v u ≠ .panic := by
  induction f generalizing i d v u with
  | zero => simp [objectLoop]
  | succ f ih =>
    simp only [objectLoop]
    split
    · simp
    · split
      · unfold Outcome.map
        have := newOrError_ne_panic v u
        split <;> simp_all
      · rename_i hm
        simp only [Bool.not_eq_true', Bool.not_eq_false] at hm
        split
        · simp
        · rename_i key d1 ht
          have hk := token_key (.inl ⟨hst, hm⟩) ht
          split
          · split
            · simp
            · have := decodeValue_ne_panic d1
              split
              · rename_i hv
                exact ih _ _ _ _ (.inr (decodeValue_state hk.2.1 hv).1)
              · simp
              · simp_all
          · split
            · split
              · simp
              · have := decodeUnit_ne_panic d1
                split
                · rename_i hv
                  exact ih _ _ _ _ (.inr (decodeUnit_state hk.2.1 hv).1)
                · simp
                · simp_all
            · split
              · simp
              · have := decodeAndSkipNested_ne_panic d1
                split
                · rename_i hv
                  exact ih _ _ _ _ (.inr (decodeAndSkipNested_restores hk.2.1 hv).1)
                · simp
                · simp_all
        · rename_i t d1 hns ht
          obtain ⟨tok, d1'⟩ := d1
          obtain ⟨⟨s, rfl⟩, _⟩ := token_key (.inl ⟨hst, hm⟩) ht
          exact (hns _ _ rfl).elim


/-- when the member loop succeeds it stops where a key or `}` is expected, at the nesting level it
started at, in front of a byte that is not the start of a member (`More` is false) -/
theorem objectLoop_final {mk : Nat} {du : Bool} {f i : Nat} {d : Dec} {v : Option Nat} {u : Option Bytes}
    {z : Nat} {d1 : Dec} (hst : AtMember d) (h : objectLoop mk du f i d v u = .ok (z, d1)) :
    AtMember d1 ∧ d1.stack = d.stack ∧ d1.more = false := by
  induction f generalizing i d v u with
  | zero => simp [objectLoop] at h
  | succ f ih =>
    simp only [objectLoop] at h
    split at h
    · simp at h
    · split at h
      · rename_i hm
        simp only [Bool.not_eq_true', ] at hm
        unfold Outcome.map at h
        split at h
        · simp only [Outcome.ok.injEq, Prod.mk.injEq] at h
          obtain ⟨_, rfl⟩ := h
          exact ⟨hst, rfl, hm⟩
        · simp at h
        · simp at h
      · rename_i hm
        simp only [Bool.not_eq_true', Bool.not_eq_false] at hm
        split at h
        · simp at h
        · rename_i key d0 ht
          have hk := token_key (.inl ⟨hst, hm⟩) ht
          split at h
          · split at h
            · simp at h
            · split at h
              · rename_i hv
                have h2 := decodeValue_state hk.2.1 hv
                have := ih (.inr h2.1) h
                exact ⟨this.1, by rw [this.2.1, h2.2, hk.2.2], this.2.2⟩
              · simp at h
              · simp at h
          · split at h
            · split at h
              · simp at h
              · split at h
                · rename_i hv
                  have h2 := decodeUnit_state hk.2.1 hv
                  have := ih (.inr h2.1) h
                  exact ⟨this.1, by rw [this.2.1, h2.2, hk.2.2], this.2.2⟩
                · simp at h
                · simp at h
            · split at h
              · simp at h
              · split at h
                · rename_i hv
                  have h2 := decodeAndSkipNested_restores hk.2.1 hv
                  have := ih (.inr h2.1) h
                  exact ⟨this.1, by rw [this.2.1, h2.2, hk.2.2], this.2.2⟩
                · simp at h
                · simp at h
        · simp at h

theorem unmarshalText_ne_panic (du : Bool) (s : Bytes) : unmarshalText du s ≠ .panic := by
  unfold unmarshalText
  simp only
  repeat' split
  all_goals first | (simp; done) | exact newSize_ne_panic _ _

theorem expectEOF_ne_panic (d : Dec) : expectEOF d ≠ .panic := by
  unfold expectEOF
  split <;> simp

theorem unmarshalJSON_ne_panic (mk : Nat) (r : Rule) (s : Bytes) : unmarshalJSON mk r s ≠ .panic := by
  unfold unmarshalJSON
  split
  · simp
  · rename_i c d ht
    split
    · simp
    · rename_i hc
      simp only [bne_iff_ne, ne_eq, Decidable.not_not] at hc
      subst hc
      split
      · simp
      · have hd : AtMember d := by
          rcases token_top (d := Dec.init s) rfl ht with ⟨h0, _⟩ | ⟨_, h1, _⟩ | ⟨h0, _⟩
          · simp at h0
          · exact .inl h1
          · exact (h0 _ rfl).elim
        have := objectLoop_ne_panic mk r.disallowUnknown (s.length + 2) 0 d none none hd
        split
        · simp
        · simp_all
        · split
          · simp
          · simp
          · unfold Outcome.map
            have := expectEOF_ne_panic ‹_›
            split <;> simp_all
          · simp
  · unfold Outcome.bind
    have := expectEOF_ne_panic ‹_›
    split
    · exact unmarshalText_ne_panic _ _
    · simp
    · simp_all
  · split
    · simp
    · unfold Outcome.bind
      have := expectEOF_ne_panic ‹_›
      split
      · exact unmarshalText_ne_panic _ _
      · simp
      · simp_all
  · simp

theorem parse_ne_panic (maxLen mk : Nat) (r : Rule) (s : Bytes) : parse maxLen mk r s ≠ .panic := by
  unfold parse
  split
  · simp
  · split
    · exact unmarshalJSON_ne_panic _ _ _
    · exact unmarshalText_ne_panic _ _


end U.Size
