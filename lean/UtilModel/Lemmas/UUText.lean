import UtilModel.Lemmas.UU
namespace U.UU
open U

/-! ## URN prefix -/

/-- `urn` in any of its 8 casings followed by exactly `:uuid:` -/
def URNCasing (p : Bytes) : Prop :=
  ∃ c0 c1 c2, p = [c0, c1, c2, 58, 117, 117, 105, 100, 58] ∧
    (c0 = 117 ∨ c0 = 85) ∧ (c1 = 114 ∨ c1 = 82) ∧ (c2 = 110 ∨ c2 = 78)

theorem hasURNPrefix_cons (c0 c1 c2 c3 c4 c5 c6 c7 c8 : Nat) (rest : Bytes) :
    hasURNPrefix (c0 :: c1 :: c2 :: c3 :: c4 :: c5 :: c6 :: c7 :: c8 :: rest) =
      .ok (decide ((c0 = 117 ∨ c0 = 85) ∧ (c1 = 114 ∨ c1 = 82) ∧ (c2 = 110 ∨ c2 = 78) ∧
        c3 = 58 ∧ c4 = 117 ∧ c5 = 117 ∧ c6 = 105 ∧ c7 = 100 ∧ c8 = 58)) := by
  simp only [hasURNPrefix, hasURNPrefix.go, List.getElem?_cons_zero, List.getElem?_cons_succ, Nat.zero_add,
    Nat.reduceAdd]
  repeat' split
  all_goals simp only [Outcome.ok.injEq, Bool.true_eq, Bool.false_eq, decide_eq_true_eq, decide_eq_false_iff_not]
  all_goals omega

theorem hasURNPrefix_spec (s : Bytes) (h : 9 ≤ s.length) :
    (hasURNPrefix s = .ok true ∧ URNCasing (s.take 9)) ∨ (hasURNPrefix s = .ok false ∧ ¬ URNCasing (s.take 9)) := by
  rcases s with _ | ⟨c0, _ | ⟨c1, _ | ⟨c2, _ | ⟨c3, _ | ⟨c4, _ | ⟨c5, _ | ⟨c6, _ | ⟨c7, _ | ⟨c8, rest⟩⟩⟩⟩⟩⟩⟩⟩⟩
  all_goals try (simp only [List.length_nil, List.length_cons] at h; omega)
  rw [hasURNPrefix_cons]
  by_cases hc : ((c0 = 117 ∨ c0 = 85) ∧ (c1 = 114 ∨ c1 = 82) ∧ (c2 = 110 ∨ c2 = 78) ∧
        c3 = 58 ∧ c4 = 117 ∧ c5 = 117 ∧ c6 = 105 ∧ c7 = 100 ∧ c8 = 58)
  · left
    refine ⟨by rw [decide_eq_true hc], c0, c1, c2, ?_, hc.1, hc.2.1, hc.2.2.1⟩
    obtain ⟨_, _, _, rfl, rfl, rfl, rfl, rfl, rfl⟩ := hc
    simp
  · right
    refine ⟨by rw [decide_eq_false hc], ?_⟩
    rintro ⟨d0, d1, d2, he, h0, h1, h2⟩
    simp only [List.take_succ_cons, List.take_zero, List.cons.injEq, and_true] at he
    obtain ⟨rfl, rfl, rfl, rfl, rfl, rfl, rfl, rfl, rfl⟩ := he
    exact hc ⟨h0, h1, h2, rfl, rfl, rfl, rfl, rfl, rfl⟩

/-! ## errors of the framed part -/

theorem starts_le : ∀ p, p ∈ Gen.uu_starts → p ≤ 34 := by decide

theorem flat_starts : flat Gen.uu_starts = (List.range 32).map pos := by decide

theorem flat_starts_getElem? (t p : Nat) (h : (flat Gen.uu_starts)[t]? = some p) : t < 32 ∧ p = pos t := by
  rw [flat_starts, List.getElem?_map] at h
  by_cases ht : t < 32
  · rw [List.getElem?_range ht] at h
    simp only [Option.map_some, Option.some.injEq] at h
    exact ⟨ht, h.symm⟩
  · rw [List.getElem?_eq_none (by simp; omega)] at h
    simp at h

theorem core_ne_panic (s : Bytes) (off : Nat) (u : Bool) (hlen : off + 36 ≤ s.length) :
    core s off u ≠ .panic := by
  unfold core
  rw [List.getElem?_eq_getElem (by omega : off + 8 < s.length), List.getElem?_eq_getElem (by omega : off + 13 < s.length),
    List.getElem?_eq_getElem (by omega : off + 18 < s.length), List.getElem?_eq_getElem (by omega : off + 23 < s.length)]
  simp only []
  split
  · simp
  · have := digits_ne_panic s off u Gen.uu_starts 0 (0#64, 0#64)
      (fun p hp => by have := starts_le p hp; omega)
    split
    · simp
    · simp
    · rename_i h; exact absurd h this

theorem core_err_class (s : Bytes) (off : Nat) (u : Bool) (e : Err) (h : core s off u = .err e) :
    e = .invalid ∨ ∃ b, e = .invalidDigit b ∧ b ∈ s ∧ parseDigit b u = none := by
  unfold core at h
  split at h
  · split at h
    · simp only [Outcome.err.injEq] at h; exact Or.inl h.symm
    · split at h
      · simp at h
      · rename_i e' hd
        simp only [Outcome.err.injEq] at h
        subst h
        exact Or.inr (digits_err_class _ _ _ _ _ _ _ hd)
      · simp at h
  · simp at h

/-- a byte other than `-` at one of the four hyphen positions is `invalid` -/
theorem core_bad_hyphen (s : Bytes) (off : Nat) (u : Bool) (hlen : off + 36 ≤ s.length) (p : Nat)
    (hp : p ∈ Gen.uu_hyphens) (hbad : s[off + p]? ≠ some 45) : core s off u = .err .invalid := by
  unfold core
  rw [List.getElem?_eq_getElem (by omega : off + 8 < s.length), List.getElem?_eq_getElem (by omega : off + 13 < s.length),
    List.getElem?_eq_getElem (by omega : off + 18 < s.length), List.getElem?_eq_getElem (by omega : off + 23 < s.length)]
  simp only []
  rw [if_pos]
  simp only [Gen.uu_hyphens, List.mem_cons, List.not_mem_nil, or_false] at hp
  rcases hp with rfl | rfl | rfl | rfl
  · rw [List.getElem?_eq_getElem (by omega : off + 8 < s.length)] at hbad
    simp only [ne_eq, Option.some.injEq] at hbad
    exact Or.inl hbad
  · rw [List.getElem?_eq_getElem (by omega : off + 13 < s.length)] at hbad
    simp only [ne_eq, Option.some.injEq] at hbad
    exact Or.inr (Or.inl hbad)
  · rw [List.getElem?_eq_getElem (by omega : off + 18 < s.length)] at hbad
    simp only [ne_eq, Option.some.injEq] at hbad
    exact Or.inr (Or.inr (Or.inl hbad))
  · rw [List.getElem?_eq_getElem (by omega : off + 23 < s.length)] at hbad
    simp only [ne_eq, Option.some.injEq] at hbad
    exact Or.inr (Or.inr (Or.inr hbad))

/-- with the hyphens in place, the first byte (in text order) that is not an allowed digit is reported -/
theorem core_first_bad (s : Bytes) (off : Nat) (u : Bool) (hlen : off + 36 ≤ s.length)
    (hyph : ∀ p, p ∈ Gen.uu_hyphens → s[off + p]? = some 45) (k b : Nat) (hk : k < 32)
    (hgood : ∀ k', k' < k → ∃ c v, s[off + pos k']? = some c ∧ parseDigit c u = some v)
    (hb : s[off + pos k]? = some b) (hbad : parseDigit b u = none) :
    core s off u = .err (.invalidDigit b) := by
  unfold core
  rw [hyph 8 (by decide), hyph 13 (by decide), hyph 18 (by decide), hyph 23 (by decide)]
  simp only []
  rw [if_neg (by omega)]
  rw [digits_first_bad s off u Gen.uu_starts 0 (0#64, 0#64) k (pos k) b
    (fun p hp => by have := starts_le p hp; omega) ?_ ?_ hb hbad]
  · intro t' ht' p hp
    obtain ⟨_, rfl⟩ := flat_starts_getElem? t' p hp
    obtain ⟨c, v, hc, hv⟩ := hgood t' ht'
    rw [(digitVal_eq_some _ _ _ _ _).mpr ⟨c, hc, hv⟩]
    rfl
  · rw [flat_starts, List.getElem?_map, List.getElem?_range hk]
    rfl

end U.UU
namespace U.UU
open U

/-! ## characters -/

/-- lower-case the hex letters `A`–`F` -/
def lowerHex (c : Nat) : Nat := if 65 ≤ c ∧ c ≤ 70 then c + 32 else c
/-- upper-case the hex letters `a`–`f` -/
def upperHex (c : Nat) : Nat := if 97 ≤ c ∧ c ≤ 102 then c - 32 else c

theorem parseDigit_iff (c : Nat) (u : Bool) (v : Nat) :
    parseDigit c u = some v ↔ v < 16 ∧ lowerHex c = hexDigit v ∧ (u = false → c = hexDigit v) := by
  unfold parseDigit lowerHex hexDigit
  by_cases hv : v < 10 <;> by_cases h1 : 48 ≤ c ∧ c ≤ 57 <;> by_cases h2 : 97 ≤ c ∧ c ≤ 102 <;>
    by_cases h3 : 65 ≤ c ∧ c ≤ 70 <;> cases u <;>
    simp only [hv, h1, h2, h3, if_true, if_false, Bool.false_eq_true, true_and, and_self,
      Option.some.injEq, reduceCtorEq, forall_const, false_implies, and_true, false_iff] <;>
    omega

theorem parseDigit_hexDigit (v : Nat) (u : Bool) (h : v < 16) : parseDigit (hexDigit v) u = some v := by
  rw [parseDigit_iff]
  refine ⟨h, ?_, fun _ => rfl⟩
  unfold lowerHex hexDigit
  repeat' split
  all_goals omega

theorem parseDigit_upperHex (v : Nat) (h : v < 16) : parseDigit (upperHex (hexDigit v)) true = some v := by
  rw [parseDigit_iff]
  refine ⟨h, ?_, fun h => by simp at h⟩
  unfold lowerHex upperHex hexDigit
  repeat' split
  all_goals omega

theorem lowerHex_eq_45 (c : Nat) : lowerHex c = 45 ↔ c = 45 := by
  unfold lowerHex; split <;> omega

theorem lowerHex_of_lower (c : Nat) (h : ¬ (65 ≤ c ∧ c ≤ 70)) : lowerHex c = c := by
  unfold lowerHex; rw [if_neg h]

theorem lowerHex_upperHex (c : Nat) (h : ¬ (65 ≤ c ∧ c ≤ 70)) : lowerHex (upperHex c) = c := by
  unfold lowerHex upperHex; repeat' split
  all_goals omega

/-! ## positions -/

theorem layoutOf_length (d : Nat → Nat) : (layoutOf d).length = 36 := rfl

theorem layoutOf_hyphen (d : Nat → Nat) (p : Nat) (hp : p ∈ Gen.uu_hyphens) : (layoutOf d)[p]? = some 45 := by
  simp only [Gen.uu_hyphens, List.mem_cons, List.not_mem_nil, or_false] at hp
  rcases hp with rfl | rfl | rfl | rfl <;> rfl

theorem layoutOf_digit (d : Nat → Nat) (k : Nat) (hk : k < 32) :
    (layoutOf d)[pos k]? = some (hexDigit (d k)) := by
  have hc : k = 0 ∨ k = 1 ∨ k = 2 ∨ k = 3 ∨ k = 4 ∨ k = 5 ∨ k = 6 ∨ k = 7 ∨ k = 8 ∨ k = 9 ∨ k = 10 ∨ k = 11 ∨ k = 12 ∨ k = 13 ∨ k = 14 ∨ k = 15 ∨ k = 16 ∨ k = 17 ∨ k = 18 ∨ k = 19 ∨ k = 20 ∨ k = 21 ∨ k = 22 ∨ k = 23 ∨ k = 24 ∨ k = 25 ∨ k = 26 ∨ k = 27 ∨ k = 28 ∨ k = 29 ∨ k = 30 ∨ k = 31 := by omega
  rcases hc with rfl | rfl | rfl | rfl | rfl | rfl | rfl | rfl | rfl | rfl | rfl | rfl | rfl | rfl | rfl | rfl | rfl | rfl | rfl | rfl | rfl | rfl | rfl | rfl | rfl | rfl | rfl | rfl | rfl | rfl | rfl | rfl <;> rfl

theorem pos_lt (k : Nat) (hk : k < 32) : pos k < 36 := by
  unfold pos; repeat' split
  all_goals omega

/-- every text position is a hyphen position or a digit position -/
theorem pos_cover (p : Nat) (hp : p < 36) : p ∈ Gen.uu_hyphens ∨ ∃ k, k < 32 ∧ pos k = p := by
  by_cases h : p = 8 ∨ p = 13 ∨ p = 18 ∨ p = 23
  · left; simp only [Gen.uu_hyphens, List.mem_cons, List.not_mem_nil, or_false]; exact h
  · right
    refine ⟨p - (if p < 8 then 0 else if p < 13 then 1 else if p < 18 then 2 else if p < 23 then 3 else 4), ?_, ?_⟩
    · repeat' split
      all_goals omega
    · unfold pos
      repeat' split
      all_goals omega

end U.UU
