import UtilModel.Lemmas.UU
namespace U.UU
open U

/-! ## URN prefix -/

/-- `urn` in any of its 8 casings followed by exactly `:uuid:` -/
def URNCasing (p : Bytes) : Prop :=
  ∃ c0 c1 c2, p = [c0, c1, c2, 58, 117, 117, 105, 100, 58] ∧
    (c0 = 117 ∨ c0 = 85) ∧ (c1 = 114 ∨ c1 = 82) ∧ (c2 = 110 ∨ c2 = 78)

theorem hasURNPrefix_cons (c0 c1 c2 c3 c4 c5 c6 c7 c8 : Nat) (rest : Bytes) :
    hasURNPrefix (c0 :: c1 :: c2 :: c3 :: c4 :: c5 :: c6 :: c7 :: c8 :: rest) =
      .ok (decide ((c0 = 117 ∨ c0 = 85) ∧ (c1 = 114 ∨ c1 = 82) ∧ (c2 = 110 ∨ c2 = 78) ∧
        c3 = 58 ∧ c4 = 117 ∧ c5 = 117 ∧ c6 = 105 ∧ c7 = 100 ∧ c8 = 58)) := by
  simp only [hasURNPrefix, hasURNPrefix.go, List.getElem?_cons_zero, List.getElem?_cons_succ, Nat.zero_add,
    Nat.reduceAdd]
  repeat' split
  all_goals simp only [Outcome.ok.injEq, Bool.true_eq, Bool.false_eq, decide_eq_true_eq, decide_eq_false_iff_not]
  all_goals omega

theorem hasURNPrefix_spec (s : Bytes) (h : 9 ≤ s.length) :
    (hasURNPrefix s = .ok true ∧ URNCasing (s.take 9)) ∨ (hasURNPrefix s = .ok false ∧ ¬ URNCasing (s.take 9)) := by
  rcases s with _ | ⟨c0, _ | ⟨c1, _ | ⟨c2, _ | ⟨c3, _ | ⟨c4, _ | ⟨c5, _ | ⟨c6, _ | ⟨c7, _ | ⟨c8, rest⟩⟩⟩⟩⟩⟩⟩⟩⟩
  all_goals try (simp only [List.length_nil, List.length_cons] at h; omega)
  rw [hasURNPrefix_cons]
  by_cases hc : ((c0 = 117 ∨ c0 = 85) ∧ (c1 = 114 ∨ c1 = 82) ∧ (c2 = 110 ∨ c2 = 78) ∧
        c3 = 58 ∧ c4 = 117 ∧ c5 = 117 ∧ c6 = 105 ∧ c7 = 100 ∧ c8 = 58)
  · left
    refine ⟨by rw [decide_eq_true hc], c0, c1, c2, ?_, hc.1, hc.2.1, hc.2.2.1⟩
    obtain ⟨_, _, _, rfl, rfl, rfl, rfl, rfl, rfl⟩ := hc
    simp
  · right
    refine ⟨by rw [decide_eq_false hc], ?_⟩
    rintro ⟨d0, d1, d2, he, h0, h1, h2⟩
    simp only [List.take_succ_cons, List.take_zero, List.cons.injEq, and_true] at he
    obtain ⟨rfl, rfl, rfl, rfl, rfl, rfl, rfl, rfl, rfl⟩ := he
    exact hc ⟨h0, h1, h2, rfl, rfl, rfl, rfl, rfl, rfl⟩

/-! ## errors of the framed part -/

theorem starts_le : ∀ p, p ∈ Gen.uu_starts → p ≤ 34 := by decide

theorem flat_starts : flat Gen.uu_starts = (List.range 32).map pos := by decide

theorem flat_starts_getElem? (t p : Nat) (h : (flat Gen.uu_starts)[t]? = some p) : t < 32 ∧ p = pos t := by
  rw [flat_starts, List.getElem?_map] at h
  by_cases ht : t < 32
  · rw [List.getElem?_range ht] at h
    simp only [Option.map_some, Option.some.injEq] at h
    exact ⟨ht, h.symm⟩
  · rw [List.getElem?_eq_none (by simp; omega)] at h
    simp at h

theorem core_ne_panic (s : Bytes) (off : Nat) (u : Bool) (hlen : off + 36 ≤ s.length) :
    core s off u ≠ .panic := by
  unfold core
  rw [List.getElem?_eq_getElem (by omega : off + 8 < s.length), List.getElem?_eq_getElem (by omega : off + 13 < s.length),
    List.getElem?_eq_getElem (by omega : off + 18 < s.length), List.getElem?_eq_getElem (by omega : off + 23 < s.length)]
  simp only []
  split
  · simp
  · have := digits_ne_panic s off u Gen.uu_starts 0 (0#64, 0#64)
      (fun p hp => by have := starts_le p hp; omega)
    split
    · simp
    · simp
    · rename_i h; exact absurd h this

theorem core_err_class (s : Bytes) (off : Nat) (u : Bool) (e : Err) (h : core s off u = .err e) :
    e = .invalid ∨ ∃ b, e = .invalidDigit b ∧ b ∈ s ∧ parseDigit b u = none := by
  unfold core at h
  split at h
  · split at h
    · simp only [Outcome.err.injEq] at h; exact Or.inl h.symm
    · split at h
      · simp at h
      · rename_i e' hd
        simp only [Outcome.err.injEq] at h
        subst h
        exact Or.inr (digits_err_class _ _ _ _ _ _ _ hd)
      · simp at h
  · simp at h

/-- a byte other than `-` at one of the four hyphen positions is `invalid` -/
theorem core_bad_hyphen (s : Bytes) (off : Nat) (u : Bool) (hlen : off + 36 ≤ s.length) (p : Nat)
    (hp : p ∈ Gen.uu_hyphens) (hbad : s[off + p]? ≠ some 45) : core s off u = .err .invalid := by
  unfold core
  rw [List.getElem?_eq_getElem (by omega : off + 8 < s.length), List.getElem?_eq_getElem (by omega : off + 13 < s.length),
    List.getElem?_eq_getElem (by omega : off + 18 < s.length), List.getElem?_eq_getElem (by omega : off + 23 < s.length)]
  simp only []
  rw [if_pos]
  simp only [Gen.uu_hyphens, List.mem_cons, List.not_mem_nil, or_false] at hp
  rcases hp with rfl | rfl | rfl | rfl
  · rw [List.getElem?_eq_getElem (by omega : off + 8 < s.length)] at hbad
    simp only [ne_eq, Option.some.injEq] at hbad
    exact Or.inl hbad
  · rw [List.getElem?_eq_getElem (by omega : off + 13 < s.length)] at hbad
    simp only [ne_eq, Option.some.injEq] at hbad
    exact Or.inr (Or.inl hbad)
  · rw [List.getElem?_eq_getElem (by omega : off + 18 < s.length)] at hbad
    simp only [ne_eq, Option.some.injEq] at hbad
    exact Or.inr (Or.inr (Or.inl hbad))
  · rw [List.getElem?_eq_getElem (by omega : off + 23 < s.length)] at hbad
    simp only [ne_eq, Option.some.injEq] at hbad
    exact Or.inr (Or.inr (Or.inr hbad))

/-- with the hyphens in place, the first byte (in text order) that is not an allowed digit is reported -/
theorem core_first_bad (s : Bytes) (off : Nat) (u : Bool) (hlen : off + 36 ≤ s.length)
    (hyph : ∀ p, p ∈ Gen.uu_hyphens → s[off + p]? = some 45) (k b : Nat) (hk : k < 32)
    (hgood : ∀ k', k' < k → ∃ c v, s[off + pos k']? = some c ∧ parseDigit c u = some v)
    (hb : s[off + pos k]? = some b) (hbad : parseDigit b u = none) :
    core s off u = .err (.invalidDigit b) := by
  unfold core
  rw [hyph 8 (by decide), hyph 13 (by decide), hyph 18 (by decide), hyph 23 (by decide)]
  simp only []
  rw [if_neg (by omega)]
  rw [digits_first_bad s off u Gen.uu_starts 0 (0#64, 0#64) k (pos k) b
    (fun p hp => by have := starts_le p hp; omega) ?_ ?_ hb hbad]
  · intro t' ht' p hp
    obtain ⟨_, rfl⟩ := flat_starts_getElem? t' p hp
    obtain ⟨c, v, hc, hv⟩ := hgood t' ht'
    rw [(digitVal_eq_some _ _ _ _ _).mpr ⟨c, hc, hv⟩]
    rfl
  · rw [flat_starts, List.getElem?_map, List.getElem?_range hk]
    rfl

end U.UU
namespace U.UU
open U

/-! ## characters -/

/-- lower-case the hex letters `A`–`F` -/
def lowerHex (c : Nat) : Nat := if 65 ≤ c ∧ c ≤ 70 then c + 32 else c
/-- upper-case the hex letters `a`–`f` -/
def upperHex (c : Nat) : Nat := if 97 ≤ c ∧ c ≤ 102 then c - 32 else c

theorem parseDigit_iff (c : Nat) (u : Bool) (v : Nat) :
    parseDigit c u = some v ↔ v < 16 ∧ lowerHex c = hexDigit v ∧ (u = false → c = hexDigit v) := by
  unfold parseDigit lowerHex hexDigit
  by_cases hv : v < 10 <;> by_cases h1 : 48 ≤ c ∧ c ≤ 57 <;> by_cases h2 : 97 ≤ c ∧ c ≤ 102 <;>
    by_cases h3 : 65 ≤ c ∧ c ≤ 70 <;> cases u <;>
    simp only [hv, h1, h2, h3, if_true, if_false, Bool.false_eq_true, true_and, and_self,
      Option.some.injEq, reduceCtorEq, forall_const, false_implies, and_true, false_iff] <;>
    omega

theorem parseDigit_hexDigit (v : Nat) (u : Bool) (h : v < 16) : parseDigit (hexDigit v) u = some v := by
  rw [parseDigit_iff]
  refine ⟨h, ?_, fun _ => rfl⟩
  unfold lowerHex hexDigit
  repeat' split
  all_goals omega

theorem parseDigit_upperHex (v : Nat) (h : v < 16) : parseDigit (upperHex (hexDigit v)) true = some v := by
  rw [parseDigit_iff]
  refine ⟨h, ?_, fun h => by simp at h⟩
  unfold lowerHex upperHex hexDigit
  repeat' split
  all_goals omega

theorem lowerHex_eq_45 (c : Nat) : lowerHex c = 45 ↔ c = 45 := by
  unfold lowerHex; split <;> omega

theorem lowerHex_of_lower (c : Nat) (h : ¬ (65 ≤ c ∧ c ≤ 70)) : lowerHex c = c := by
  unfold lowerHex; rw [if_neg h]

theorem lowerHex_upperHex (c : Nat) (h : ¬ (65 ≤ c ∧ c ≤ 70)) : lowerHex (upperHex c) = c := by
  unfold lowerHex upperHex; repeat' split
  all_goals omega

/-! ## positions -/

theorem layoutOf_length (d : Nat → Nat) : (layoutOf d).length = 36 := rfl

theorem layoutOf_hyphen (d : Nat → Nat) (p : Nat) (hp : p ∈ Gen.uu_hyphens) : (layoutOf d)[p]? = some 45 := by
  simp only [Gen.uu_hyphens, List.mem_cons, List.not_mem_nil, or_false] at hp
  rcases hp with rfl | rfl | rfl | rfl <;> rfl

theorem layoutOf_digit (d : Nat → Nat) (k : Nat) (hk : k < 32) :
    (layoutOf d)[pos k]? = some (hexDigit (d k)) := by
  have hc : k = 0 ∨ k = 1 ∨ k = 2 ∨ k = 3 ∨ k = 4 ∨ k = 5 ∨ k = 6 ∨ k = 7 ∨ k = 8 ∨ k = 9 ∨ k = 10 ∨ k = 11 ∨ k = 12 ∨ k = 13 ∨ k = 14 ∨ k = 15 ∨ k = 16 ∨ k = 17 ∨ k = 18 ∨ k = 19 ∨ k = 20 ∨ k = 21 ∨ k = 22 ∨ k = 23 ∨ k = 24 ∨ k = 25 ∨ k = 26 ∨ k = 27 ∨ k = 28 ∨ k = 29 ∨ k = 30 ∨ k = 31 := by omega
  rcases hc with rfl | rfl | rfl | rfl | rfl | rfl | rfl | rfl | rfl | rfl | rfl | rfl | rfl | rfl | rfl | rfl | rfl | rfl | rfl | rfl | rfl | rfl | rfl | rfl | rfl | rfl | rfl | rfl | rfl | rfl | rfl | rfl <;> rfl

theorem pos_lt (k : Nat) (hk : k < 32) : pos k < 36 := by
  unfold pos; repeat' split
  all_goals omega

/-- every text position is a hyphen position or a digit position -/
theorem pos_cover (p : Nat) (hp : p < 36) : p ∈ Gen.uu_hyphens ∨ ∃ k, k < 32 ∧ pos k = p := by
  by_cases h : p = 8 ∨ p = 13 ∨ p = 18 ∨ p = 23
  · left; simp only [Gen.uu_hyphens, List.mem_cons, List.not_mem_nil, or_false]; exact h
  · right
    refine ⟨p - (if p < 8 then 0 else if p < 13 then 1 else if p < 18 then 2 else if p < 23 then 3 else 4), ?_, ?_⟩
    · repeat' split
      all_goals omega
    · unfold pos
      repeat' split
      all_goals omega

end U.UU
namespace U.UU
open U

/-! ## the 36-byte body -/

/-- what `core` checks of the 36 bytes after the offset -/
def TextOf (u : Bool) (body : Bytes) (i : ID) : Prop :=
  (∀ p, p ∈ Gen.uu_hyphens → body[p]? = some 45) ∧
  ∀ k, k < 32 → ∃ c, body[pos k]? = some c ∧ parseDigit c u = some (nibble i k)

theorem core_ok_iff_textOf (pre body : Bytes) (u : Bool) (i : ID) :
    core (pre ++ body) pre.length u = .ok i ↔ TextOf u body i := by
  rw [core_ok_iff]
  have e : ∀ p, (pre ++ body)[pre.length + p]? = body[p]? := fun p => by
    rw [List.getElem?_append_right (by omega)]
    congr 1; omega
  simp only [e, TextOf, Gen.uu_hyphens, List.mem_cons, List.not_mem_nil, or_false, forall_eq_or_imp, forall_eq]

/-- the body condition in list form: lower-casing the hex letters gives the canonical text, and with
upper-case digits disallowed the body is the canonical text itself -/
theorem textOf_iff (u : Bool) (body : Bytes) (i : ID) (hlen : body.length = 36) :
    TextOf u body i ↔ body.map lowerHex = format [] i false ∧ (u = false → body = format [] i false) := by
  rw [format_eq_layout]
  constructor
  · rintro ⟨hh, hd⟩
    have hl : ∀ p : Nat, (body.map lowerHex)[p]? = (layoutOf (nibble i))[p]? ∧
        (u = false → body[p]? = (layoutOf (nibble i))[p]?) := by
      intro p
      by_cases hp : p < 36
      · rcases pos_cover p hp with hy | ⟨k, hk, rfl⟩
        · rw [List.getElem?_map, hh p hy, layoutOf_hyphen _ p hy]
          exact ⟨rfl, fun _ => rfl⟩
        · obtain ⟨c, hc, hv⟩ := hd k hk
          rw [parseDigit_iff] at hv
          rw [List.getElem?_map, hc, layoutOf_digit _ k hk, Option.map_some, hv.2.1]
          exact ⟨rfl, fun hu => by rw [hv.2.2 hu]⟩
      · rw [List.getElem?_eq_none (by rw [List.length_map]; omega),
          List.getElem?_eq_none (by rw [layoutOf_length]; omega), List.getElem?_eq_none (by omega)]
        exact ⟨rfl, fun _ => rfl⟩
    exact ⟨List.ext_getElem? (fun p => (hl p).1), fun hu => List.ext_getElem? (fun p => (hl p).2 hu)⟩
  · rintro ⟨hm, hu⟩
    have hget : ∀ p : Nat, (body[p]?).map lowerHex = (layoutOf (nibble i))[p]? := fun p => by
      rw [← hm, List.getElem?_map]
    constructor
    · intro p hp
      have := hget p
      rw [layoutOf_hyphen _ p hp] at this
      cases hb : body[p]? with
      | none => rw [hb] at this; simp at this
      | some c =>
        rw [hb, Option.map_some, Option.some.injEq, lowerHex_eq_45] at this
        rw [this]
    · intro k hk
      have := hget (pos k)
      rw [layoutOf_digit _ k hk] at this
      cases hb : body[pos k]? with
      | none => rw [hb] at this; simp at this
      | some c =>
        rw [hb, Option.map_some, Option.some.injEq] at this
        refine ⟨c, rfl, (parseDigit_iff _ _ _).mpr ⟨nibble_lt i k, this, fun h => ?_⟩⟩
        have := congrArg (fun l => l[pos k]?) (hu h)
        simp only [hb, layoutOf_digit _ k hk, Option.some.injEq] at this
        exact this

theorem format_length (i : ID) : (format [] i false).length = 36 := by
  rw [format_eq_layout]; rfl

theorem format_urn (i : ID) : format [] i true = Gen.uu_URNPrefix ++ format [] i false := by
  simp only [format, if_true, Bool.false_eq_true, if_false, List.nil_append, List.append_assoc]

theorem URNCasing.length {p : Bytes} (h : URNCasing p) : p.length = 9 := by
  obtain ⟨_, _, _, rfl, _⟩ := h; rfl

/-! ## the parser, framed -/

/-- which offset the parser uses: 0 for a 36-byte input, 9 for a 45-byte input with an accepted prefix -/
def Framed (dURN : Bool) (s : Bytes) (off : Nat) : Prop :=
  (s.length = 36 ∧ off = 0) ∨ (s.length = 45 ∧ off = 9 ∧ dURN = false ∧ URNCasing (s.take 9))

theorem parse_framed (maxLen : Nat) (dURN dUpper : Bool) (s : Bytes) (off : Nat)
    (hlen : maxLen = 0 ∨ s.length ≤ maxLen) (hf : Framed dURN s off) :
    parse maxLen dURN dUpper s = core s off (!dUpper) := by
  rw [parse_eq, if_neg (by omega)]
  rcases hf with ⟨h36, rfl⟩ | ⟨h45, rfl, rfl, hc⟩
  · rw [if_pos h36]
  · rw [if_neg (by omega), if_pos h45]
    simp only [Bool.false_eq_true, if_false]
    rcases hasURNPrefix_spec s (by omega) with ⟨h, _⟩ | ⟨_, h⟩
    · rw [h]
    · exact absurd hc h

theorem Framed.length_le {dURN : Bool} {s : Bytes} {off : Nat} (hf : Framed dURN s off) :
    off + 36 ≤ s.length := by
  rcases hf with ⟨h, rfl⟩ | ⟨h, rfl, _⟩ <;> omega

/-- **acceptance, exactly**: the parser returns `i` iff the input is within the limit and is an optional
accepted URN prefix followed by 36 bytes that, with `A`–`F` lower-cased, are the canonical text of `i`
(and are that text verbatim when upper-case digits are disabled) -/
theorem parse_ok_iff (maxLen : Nat) (dURN dUpper : Bool) (s : Bytes) (i : ID) :
    parse maxLen dURN dUpper s = .ok i ↔
      (maxLen = 0 ∨ s.length ≤ maxLen) ∧
      ∃ pre body, s = pre ++ body ∧ (pre = [] ∨ (dURN = false ∧ URNCasing pre)) ∧
        body.map lowerHex = format [] i false ∧ (dUpper = true → body = format [] i false) := by
  have hu : ((!dUpper) = false) = (dUpper = true) := by cases dUpper <;> simp
  constructor
  · intro h
    rw [parse_eq] at h
    split at h
    · simp at h
    rename_i hlen
    refine ⟨by omega, ?_⟩
    split at h
    · rename_i h36
      refine ⟨[], s, rfl, Or.inl rfl, ?_⟩
      have := (core_ok_iff_textOf [] s (!dUpper) i).mp h
      rw [textOf_iff _ _ _ h36, hu] at this
      exact this
    · split at h
      · rename_i h45
        split at h
        · simp at h
        rename_i hd
        rcases hasURNPrefix_spec s (by omega) with ⟨hp, hc⟩ | ⟨hp, _⟩
        · rw [hp] at h
          simp only [] at h
          refine ⟨s.take 9, s.drop 9, (List.take_append_drop 9 s).symm, Or.inr ⟨by simpa using hd, hc⟩, ?_⟩
          have e : core s 9 (!dUpper) = core (s.take 9 ++ s.drop 9) (s.take 9).length (!dUpper) := by
            rw [List.take_append_drop, List.length_take, Nat.min_eq_left (by omega)]
          rw [e] at h
          have := (core_ok_iff_textOf _ _ _ i).mp h
          rw [textOf_iff _ _ _ (by rw [List.length_drop]; omega), hu] at this
          exact this
        · rw [hp] at h; simp at h
      · simp at h
  · rintro ⟨hlen, pre, body, rfl, hpre, hm, hup⟩
    have hb : body.length = 36 := by
      have := congrArg List.length hm
      rwa [List.length_map, format_length] at this
    have ht : TextOf (!dUpper) body i := (textOf_iff _ _ _ hb).mpr ⟨hm, by rw [hu]; exact hup⟩
    rcases hpre with rfl | ⟨hd, hc⟩
    · rw [parse_framed maxLen dURN dUpper _ 0 hlen (Or.inl ⟨by simpa using hb, rfl⟩)]
      exact (core_ok_iff_textOf [] body _ i).mpr ht
    · have h9 := hc.length
      rw [parse_framed maxLen dURN dUpper _ 9 hlen
        (Or.inr ⟨by rw [List.length_append]; omega, rfl, hd, by rw [List.take_left' h9]; exact hc⟩)]
      rw [← h9]
      exact (core_ok_iff_textOf pre body _ i).mpr ht

end U.UU
namespace U.UU
open U

/-! ## the accessors -/

theorem and_twoPow_eq_zero (x : BitVec 64) (j : Nat) (hj : j < 64) :
    x &&& BitVec.twoPow 64 j = 0#64 ↔ x.toNat / 2 ^ j % 2 = 0 := by
  rw [BitVec.and_twoPow, ← BitVec.testBit_toNat, Nat.testBit_eq_decide_div_mod_eq]
  by_cases h : x.toNat / 2 ^ j % 2 = 1
  · rw [decide_eq_true h, if_pos rfl]
    constructor
    · intro h0
      have := congrArg BitVec.toNat h0
      rw [BitVec.toNat_twoPow, Nat.mod_eq_of_lt (Nat.pow_lt_pow_right (by decide) hj)] at this
      have := Nat.pow_pos (n := j) (show 0 < 2 by decide)
      have h0' : (0#64 : BitVec 64).toNat = 0 := rfl
      omega
    · omega
  · rw [decide_eq_false h]
    simp only [Bool.false_eq_true, if_false, true_iff]
    omega

theorem version_eq (i : ID) : i.version = ((i.hi >>> 12) &&& 15#64).toNat := rfl

theorem variant_eq (i : ID) :
    i.variant = if i.lo &&& 9223372036854775808#64 = 0#64 then 0
      else if i.lo &&& 4611686018427387904#64 = 0#64 then 1
      else if i.lo &&& 2305843009213693952#64 = 0#64 then 2 else 3 := rfl

/-- number of leading one bits of a 4-bit value, capped at 3 -/
def leadingOnes3 (n : Nat) : Nat := if n < 8 then 0 else if n < 12 then 1 else if n < 14 then 2 else 3

theorem version_nibble (i : ID) : i.version = nibble i 12 := by
  rw [version_eq, nibble_hi i 12 (by decide), BitVec.toNat_and, BitVec.toNat_ushiftRight,
    Nat.shiftRight_eq_div_pow]
  exact Nat.and_two_pow_sub_one_eq_mod _ 4

theorem variant_nibble (i : ID) : i.variant = leadingOnes3 (nibble i 16) := by
  rw [variant_eq, nibble_lo i 16 (by decide) (by decide)]
  have e1 : (9223372036854775808#64 : BitVec 64) = BitVec.twoPow 64 63 := by decide
  have e2 : (4611686018427387904#64 : BitVec 64) = BitVec.twoPow 64 62 := by decide
  have e3 : (2305843009213693952#64 : BitVec 64) = BitVec.twoPow 64 61 := by decide
  have hl := i.lo.isLt
  rw [e1, e2, e3]
  simp only [and_twoPow_eq_zero _ _ (by decide : 63 < 64), and_twoPow_eq_zero _ _ (by decide : 62 < 64),
    and_twoPow_eq_zero _ _ (by decide : 61 < 64), leadingOnes3, Nat.reducePow, Nat.reduceSub]
  repeat' split
  all_goals omega

/-! ## more vocabulary for the property statements -/

/-- bytes the parser accepts as hex digits (`A`–`F` only when upper case is not disabled) -/
def HexByte (dUpper : Bool) (c : Nat) : Prop :=
  (48 ≤ c ∧ c ≤ 57) ∨ (97 ≤ c ∧ c ≤ 102) ∨ (dUpper = false ∧ 65 ≤ c ∧ c ≤ 70)

theorem parseDigit_eq_none_iff (c : Nat) (dUpper : Bool) : parseDigit c (!dUpper) = none ↔ ¬ HexByte dUpper c := by
  unfold parseDigit HexByte
  cases dUpper <;>
    by_cases h1 : 48 ≤ c ∧ c ≤ 57 <;> by_cases h2 : 97 ≤ c ∧ c ≤ 102 <;> by_cases h3 : 65 ≤ c ∧ c ≤ 70 <;>
    simp [h1, h2, h3]

theorem parseDigit_isSome_of_hexByte (c : Nat) (dUpper : Bool) (h : HexByte dUpper c) :
    ∃ v, parseDigit c (!dUpper) = some v := by
  cases hp : parseDigit c (!dUpper) with
  | none => exact absurd h ((parseDigit_eq_none_iff c dUpper).mp hp)
  | some v => exact ⟨v, rfl⟩

/-- strip an accepted URN prefix (nine bytes of a 45-byte input) and lower-case `A`–`F` -/
def normalise (s : Bytes) : Bytes := (if s.length = 45 then s.drop 9 else s).map lowerHex

theorem layoutOf_mem (d : Nat → Nat) (hd : ∀ k, d k < 16) (c : Nat) (hc : c ∈ layoutOf d) :
    c = 45 ∨ (48 ≤ c ∧ c ≤ 57) ∨ (97 ≤ c ∧ c ≤ 102) := by
  obtain ⟨p, hp⟩ := List.mem_iff_getElem?.mp hc
  have hp36 : p < 36 := by
    have := (List.getElem?_eq_some_iff.mp hp).1
    exact this
  rcases pos_cover p hp36 with hy | ⟨k, hk, rfl⟩
  · rw [layoutOf_hyphen _ _ hy, Option.some.injEq] at hp
    exact Or.inl hp.symm
  · rw [layoutOf_digit _ _ hk, Option.some.injEq] at hp
    subst hp
    exact Or.inr (hexDigit_lower _ (hd k))

/-- the canonical text contains no upper-case hex letter … -/
theorem map_lowerHex_format (i : ID) : (format [] i false).map lowerHex = format [] i false := by
  rw [format_eq_layout]
  conv => rhs; rw [← List.map_id (layoutOf (nibble i))]
  apply List.map_congr_left
  intro c hc
  have := layoutOf_mem _ (nibble_lt i) c hc
  rw [lowerHex_of_lower c (by omega)]; rfl

/-- … so upper-casing it is undone by lower-casing -/
theorem map_lowerHex_upperHex_format (i : ID) :
    ((format [] i false).map upperHex).map lowerHex = format [] i false := by
  rw [format_eq_layout, List.map_map]
  conv => rhs; rw [← List.map_id (layoutOf (nibble i))]
  apply List.map_congr_left
  intro c hc
  have := layoutOf_mem _ (nibble_lt i) c hc
  simp only [Function.comp_apply, id_eq]
  exact lowerHex_upperHex c (by omega)

theorem parse_ne_panic (maxLen : Nat) (dURN dUpper : Bool) (s : Bytes) :
    parse maxLen dURN dUpper s ≠ .panic := by
  rw [parse_eq]
  split
  · simp
  · split
    · exact core_ne_panic s 0 _ (by omega)
    · split
      · split
        · simp
        · rcases hasURNPrefix_spec s (by omega) with ⟨hp, _⟩ | ⟨hp, _⟩
          · rw [hp]; exact core_ne_panic s 9 _ (by omega)
          · rw [hp]; simp
      · simp

theorem parse_err_class (maxLen : Nat) (dURN dUpper : Bool) (s : Bytes) (e : Err)
    (h : parse maxLen dURN dUpper s = .err e) :
    e = .tooLong ∨ e = .invalid ∨ e = .urnDisabled ∨
      ∃ b, e = .invalidDigit b ∧ b ∈ s ∧ ¬ HexByte dUpper b := by
  have hcore : ∀ off, core s off (!dUpper) = .err e →
      e = .tooLong ∨ e = .invalid ∨ e = .urnDisabled ∨ ∃ b, e = .invalidDigit b ∧ b ∈ s ∧ ¬ HexByte dUpper b := by
    intro off hc
    rcases core_err_class _ _ _ _ hc with h | ⟨b, hb, hm, hn⟩
    · exact Or.inr (Or.inl h)
    · exact Or.inr (Or.inr (Or.inr ⟨b, hb, hm, (parseDigit_eq_none_iff b dUpper).mp hn⟩))
  rw [parse_eq] at h
  split at h
  · simp only [Outcome.err.injEq] at h; exact Or.inl h.symm
  · split at h
    · exact hcore 0 h
    · split at h
      · split at h
        · simp only [Outcome.err.injEq] at h; exact Or.inr (Or.inr (Or.inl h.symm))
        · rcases hasURNPrefix_spec s (by omega) with ⟨hp, _⟩ | ⟨hp, _⟩
          · rw [hp] at h; exact hcore 9 h
          · rw [hp] at h; simp only [Outcome.err.injEq] at h; exact Or.inr (Or.inl h.symm)
      · simp only [Outcome.err.injEq] at h; exact Or.inr (Or.inl h.symm)

end U.UU
