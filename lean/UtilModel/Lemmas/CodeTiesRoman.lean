import UtilModel.Model.Roman
import UtilModel.Lemmas.TieTactics
/-! # package `roman`: the model agrees with `parseGroup` as translated from the source on this run -/
namespace U.CodeTies
open U

theorem parseGroup_tie (input : Bytes) (unit d5 d10 : Nat) :
    Roman.parseGroup input unit d5 d10 = .ok (Gen.roman_parseGroup input unit d5 d10) := by
  unfold Roman.parseGroup Gen.roman_parseGroup Roman.eqCI
  match input with
  | [] => rfl
  | [a] =>
    simp only [List.length_cons, List.length_nil, List.getElem?_cons_zero, List.getD_eq_getElem?_getD, Option.getD_some]
    by_cases h : (a == d5 || a == d5 + 32) = true
    · have h' : (a == d5 || a == d5 + (97 - 65)) = true := h
      simp [h, h']
    · have h' : ¬ (a == d5 || a == d5 + (97 - 65)) = true := h
      simp [h, h']
  | a :: b :: t =>
    simp only [List.length_cons, List.getElem?_cons_zero, List.getElem?_cons_succ, List.getD_eq_getElem?_getD, Option.getD_some]
    have e32 : (97 - 65 : Nat) = 32 := rfl
    simp only [e32]
    have hl : ¬ (t.length + 1 + 1 = 0) := by omega
    have hl1 : ¬ (t.length + 1 + 1 = 1) := by omega
    simp only [hl, hl1, if_false, beq_iff_eq]
    repeat' split
    all_goals first | rfl | simp_all

end U.CodeTies
