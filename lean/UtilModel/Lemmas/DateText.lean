import UtilModel.Lemmas.Dec
import UtilModel.Lemmas.DateBasics
/-! # The date scanner and parser on well-formed texts, and what acceptance implies -/
namespace U.Date
open U U.GoTime

theorem val_pair (a b : Nat) : val [a, b] = (a - 48) * 10 + (b - 48) := by
  simp [val, ofDigits]

theorem stripDash_digit (c : Nat) (t : Bytes) (h : isDigit c = true) : stripDash (c :: t) = c :: t := by
  unfold stripDash
  split
  · rename_i heq
    simp only [List.cons.injEq] at heq
    simp only [isDigit, Bool.and_eq_true, decide_eq_true_eq] at h
    omega
  · rfl

theorem stripDash_allDigits (l : Bytes) (h : allDigits l = true) : stripDash l = l := by
  cases l with
  | nil => rfl
  | cons c t =>
    simp only [allDigits, List.all_cons, Bool.and_eq_true] at h
    exact stripDash_digit c t h.1

theorem allDigits_reverse (l : Bytes) : allDigits l.reverse = allDigits l := by
  simp [allDigits, List.all_reverse]

/-- month and day bytes of a valid date satisfy the pattern's alternatives -/
theorem monthPat_of_valid {m1 m2 : Nat} (h1 : isDigit m1 = true) (h2 : isDigit m2 = true)
    (hm : 1 ≤ val [m1, m2] ∧ val [m1, m2] ≤ 12) : monthPat m1 m2 = true := by
  rw [val_pair] at hm
  simp only [isDigit, Bool.and_eq_true, decide_eq_true_eq] at h1 h2
  simp only [monthPat, isDigit, Bool.or_eq_true, Bool.and_eq_true, beq_iff_eq, decide_eq_true_eq]
  omega

theorem dayPat_of_valid {d1 d2 : Nat} (h1 : isDigit d1 = true) (h2 : isDigit d2 = true)
    (hd : 1 ≤ val [d1, d2] ∧ val [d1, d2] ≤ 31) : dayPat d1 d2 = true := by
  rw [val_pair] at hd
  simp only [isDigit, Bool.and_eq_true, decide_eq_true_eq] at h1 h2
  simp only [dayPat, isDigit, Bool.or_eq_true, Bool.and_eq_true, beq_iff_eq, decide_eq_true_eq]
  omega

theorem monthPat_digits {m1 m2 : Nat} (h : monthPat m1 m2 = true) : isDigit m1 = true ∧ isDigit m2 = true := by
  simp only [monthPat, isDigit, Bool.or_eq_true, Bool.and_eq_true, beq_iff_eq, decide_eq_true_eq] at h ⊢
  omega

theorem dayPat_digits {d1 d2 : Nat} (h : dayPat d1 d2 = true) : isDigit d1 = true ∧ isDigit d2 = true := by
  simp only [dayPat, isDigit, Bool.or_eq_true, Bool.and_eq_true, beq_iff_eq, decide_eq_true_eq] at h ⊢
  omega

/-- a well-formed date text: year digits, optional separators (both or none), two month digits, two day digits -/
def text (ext : Bool) (ys : Bytes) (m1 m2 d1 d2 : Nat) : Bytes :=
  if ext then ys ++ [45, m1, m2, 45, d1, d2] else ys ++ [m1, m2, d1, d2]

/-- the scanner on a well-formed text returns the three groups -/
theorem shape_text (ext : Bool) (ys : Bytes) (m1 m2 d1 d2 : Nat)
    (hys : allDigits ys = true) (hl : 4 ≤ ys.length ∧ ys.length ≤ 9)
    (hm : monthPat m1 m2 = true) (hd : dayPat d1 d2 = true) :
    shape (text ext ys m1 m2 d1 d2) = some (ys, [m1, m2], [d1, d2]) := by
  have hmd := monthPat_digits hm
  have hrev : stripDash ys.reverse = ys.reverse := stripDash_allDigits _ (by rw [allDigits_reverse]; exact hys)
  cases ext
  · simp only [text, Bool.false_eq_true, if_false, shape, List.reverse_append, List.reverse_cons, List.reverse_nil,
      List.nil_append, List.cons_append, List.append_assoc, List.singleton_append]
    rw [stripDash_digit m2 _ hmd.2]
    simp only [hrev, List.reverse_reverse, hys, hl.1, hl.2, hm, hd, decide_true, Bool.and_self, if_true]
  · simp only [text, if_true, shape, List.reverse_append, List.reverse_cons, List.reverse_nil,
      List.nil_append, List.cons_append, List.append_assoc, List.singleton_append]
    simp only [stripDash, hrev, List.reverse_reverse, hys, hl.1, hl.2, hm, hd, decide_true, Bool.and_self, if_true]

theorem getElem?_append_lit (ys : Bytes) (lit : Bytes) (k i : Nat) (h : i = ys.length + k) :
    (ys ++ lit)[i]? = lit[k]? := by
  subst h
  rw [List.getElem?_append_right (by omega)]
  congr 1
  omega

theorem getLast_digit (ys : Bytes) (hys : allDigits ys = true) (i : Nat) (hi : i < ys.length) :
    ∃ c, ys[i]? = some c ∧ isDigit c = true := by
  refine ⟨ys[i], by simp [hi], ?_⟩
  simp only [allDigits, List.all_eq_true] at hys
  exact hys _ (List.getElem_mem hi)

/-- **the parser on a well-formed text of a real date** -/
theorem parse_text (maxLen : Nat) (disableBasic ext : Bool) (ys : Bytes) (m1 m2 d1 d2 : Nat)
    (hys : allDigits ys = true) (hl : 4 ≤ ys.length ∧ ys.length ≤ 9)
    (hm1 : isDigit m1 = true) (hm2 : isDigit m2 = true) (hd1 : isDigit d1 = true) (hd2 : isDigit d2 = true)
    (hv : validDate (val ys) (val [m1, m2]) (val [d1, d2]) = true)
    (hlen : maxLen = 0 ∨ (text ext ys m1 m2 d1 d2).length ≤ maxLen) :
    parse maxLen disableBasic (text ext ys m1 m2 d1 d2) =
      if !ext && disableBasic then .err .basicDisabled
      else .ok (new (val ys) (val [m1, m2]) (val [d1, d2])) := by
  have hv' := hv
  simp only [validDate, Bool.and_eq_true, decide_eq_true_eq] at hv'
  obtain ⟨⟨⟨hmlo, hmhi⟩, hdlo⟩, hdhi⟩ := hv'
  have hdl := daysIn_le (val ys) (val [m1, m2])
  have hm := monthPat_of_valid hm1 hm2 ⟨hmlo, hmhi⟩
  have hd := dayPat_of_valid hd1 hd2 ⟨hdlo, by omega⟩
  have hshape := shape_text ext ys m1 m2 d1 d2 hys hl hm hd
  have d2ne : ∀ c, isDigit c = true → (c == 45) = false := by
    intro c hc
    simp only [isDigit, Bool.and_eq_true, decide_eq_true_eq] at hc
    simp only [beq_eq_false_iff_ne, ne_eq]; omega
  unfold parse
  simp only [hshape]
  cases ext
  · -- basic
    have hlen' : (text false ys m1 m2 d1 d2).length = ys.length + 4 := by simp [text]
    simp only [hlen'] at hlen ⊢
    rw [if_neg (by omega), if_neg (by omega)]
    obtain ⟨c5, e5, hc5⟩ := getLast_digit ys hys (ys.length - 1) (by omega)
    obtain ⟨c6, e6, _⟩ := getLast_digit ys hys (ys.length - 2) (by omega)
    have e3 : (text false ys m1 m2 d1 d2)[ys.length + 4 - 3]? = some m2 := by
      simp only [text, Bool.false_eq_true, if_false]
      rw [getElem?_append_lit ys _ 1 _ (by omega)]; rfl
    have e5' : (text false ys m1 m2 d1 d2)[ys.length + 4 - 5]? = some c5 := by
      simp only [text, Bool.false_eq_true, if_false]
      rw [List.getElem?_append_left (by omega)]
      rw [← e5]; congr 1
    have e6' : (text false ys m1 m2 d1 d2)[ys.length + 4 - 6]? = some c6 := by
      simp only [text, Bool.false_eq_true, if_false]
      rw [List.getElem?_append_left (by omega)]
      rw [← e6]; congr 1
    simp only [e3, e5', e6', d2ne m2 hm2, d2ne c5 hc5, Bool.or_self, Bool.false_eq_true, if_false, hv, if_true,
      Bool.not_false, Bool.true_and]
  · -- extended
    have hlen' : (text true ys m1 m2 d1 d2).length = ys.length + 6 := by simp [text]
    simp only [hlen'] at hlen ⊢
    rw [if_neg (by omega), if_neg (by omega)]
    have e3 : (text true ys m1 m2 d1 d2)[ys.length + 6 - 3]? = some 45 := by
      simp only [text, if_true]
      rw [getElem?_append_lit ys _ 3 _ (by omega)]; rfl
    have e5 : (text true ys m1 m2 d1 d2)[ys.length + 6 - 5]? = some m1 := by
      simp only [text, if_true]
      rw [getElem?_append_lit ys _ 1 _ (by omega)]; rfl
    have e6 : (text true ys m1 m2 d1 d2)[ys.length + 6 - 6]? = some 45 := by
      simp only [text, if_true]
      rw [getElem?_append_lit ys _ 0 _ (by omega)]; rfl
    simp only [e3, e5, e6, beq_self_eq_true, Bool.true_or, if_true, Bool.not_true, bne_self_eq_false, Bool.or_self,
      Bool.false_eq_true, if_false, hv, Bool.false_and]


def sepOf (b : Bool) : Bytes := if b then [45] else []

theorem stripDash_cases (l : Bytes) : ∃ b, l = sepOf b ++ stripDash l := by
  unfold stripDash
  split
  · exact ⟨true, rfl⟩
  · exact ⟨false, rfl⟩

theorem shape_sound (s ys ms ds : Bytes) (h : shape s = some (ys, ms, ds)) :
    ∃ m1 m2 d1 d2 a b, ms = [m1, m2] ∧ ds = [d1, d2] ∧ allDigits ys = true ∧ 4 ≤ ys.length ∧ ys.length ≤ 9 ∧
      monthPat m1 m2 = true ∧ dayPat d1 d2 = true ∧
      s = ys ++ sepOf a ++ [m1, m2] ++ sepOf b ++ [d1, d2] := by
  unfold shape at h
  split at h
  · rename_i d2 d1 r1 hrev
    split at h
    · rename_i m2 m1 r3 hr1
      simp only at h
      split at h
      · rename_i hc
        simp only [Option.some.injEq, Prod.mk.injEq] at h
        obtain ⟨rfl, rfl, rfl⟩ := h
        simp only [Bool.and_eq_true, decide_eq_true_eq] at hc
        obtain ⟨⟨⟨⟨hys, h4⟩, h9⟩, hm⟩, hd⟩ := hc
        obtain ⟨b, hb⟩ := stripDash_cases r1
        obtain ⟨a, ha⟩ := stripDash_cases r3
        generalize stripDash r3 = q at *
        generalize stripDash r1 = p at *
        refine ⟨m1, m2, d1, d2, a, b, rfl, rfl, hys, h4, h9, hm, hd, ?_⟩
        have hs : s = (d2 :: d1 :: r1).reverse := by rw [← hrev, List.reverse_reverse]
        rw [hs, hb, hr1, ha]
        cases a <;> cases b <;> simp [sepOf]
      · simp at h
    · simp at h
  · simp at h


theorem parse_sound (maxLen : Nat) (db : Bool) (s : Bytes) (d : Date) (h : parse maxLen db s = .ok d) :
    (maxLen = 0 ∨ s.length ≤ maxLen) ∧
    ∃ ext ys m1 m2 d1 d2, s = text ext ys m1 m2 d1 d2 ∧ allDigits ys = true ∧ 4 ≤ ys.length ∧ ys.length ≤ 9 ∧
      monthPat m1 m2 = true ∧ dayPat d1 d2 = true ∧
      validDate (val ys) (val [m1, m2]) (val [d1, d2]) = true ∧ (ext = false → db = false) ∧
      d = new (val ys) (val [m1, m2]) (val [d1, d2]) := by
  unfold parse at h
  simp only at h
  split at h
  · simp at h
  · split at h
    · simp at h
    · rename_i hne hlen
      refine ⟨by omega, ?_⟩
      split at h
      · simp at h
      · rename_i ys ms ds hshape
        obtain ⟨m1, m2, d1, d2, a, b, rfl, rfl, hys, h4, h9, hm, hd, hs⟩ := shape_sound s ys _ _ hshape
        have hmd := monthPat_digits hm
        have hdd := dayPat_digits hd
        have ne45 : ∀ c, isDigit c = true → (c == 45) = false := by
          intro c hc
          simp only [isDigit, Bool.and_eq_true, decide_eq_true_eq] at hc
          simp only [beq_eq_false_iff_ne, ne_eq]; omega
        cases a <;> cases b
        · -- basic
          have hs' : s = text false ys m1 m2 d1 d2 := by rw [hs]; simp [sepOf, text]
          have hl : s.length = ys.length + 4 := by rw [hs']; simp [text]
          obtain ⟨c5, e5, hc5⟩ := getLast_digit ys hys (ys.length - 1) (by omega)
          obtain ⟨c6, e6, _⟩ := getLast_digit ys hys (ys.length - 2) (by omega)
          have e3 : s[s.length - 3]? = some m2 := by
            rw [hl, hs']; simp only [text, Bool.false_eq_true, if_false]
            rw [getElem?_append_lit ys _ 1 _ (by omega)]; rfl
          have e5' : s[s.length - 5]? = some c5 := by
            rw [hl, hs']; simp only [text, Bool.false_eq_true, if_false]
            rw [List.getElem?_append_left (by omega), ← e5]; congr 1
          have e6' : s[s.length - 6]? = some c6 := by
            rw [hl, hs']; simp only [text, Bool.false_eq_true, if_false]
            rw [List.getElem?_append_left (by omega), ← e6]; congr 1
          simp only [e3, e5', e6', ne45 m2 hmd.2, ne45 c5 hc5, Bool.or_self, Bool.false_eq_true, if_false] at h
          split at h
          · simp at h
          · rename_i hdb
            split at h
            · rename_i hv
              simp only [Outcome.ok.injEq] at h
              exact ⟨false, ys, m1, m2, d1, d2, hs', hys, h4, h9, hm, hd, hv, fun _ => by simpa using hdb, h.symm⟩
            · simp at h
        · -- YYYYMM-DD
          exfalso
          have hs' : s = ys ++ [m1, m2, 45, d1, d2] := by rw [hs]; simp [sepOf]
          have hl : s.length = ys.length + 5 := by rw [hs']; simp
          obtain ⟨c6, e6, hc6⟩ := getLast_digit ys hys (ys.length - 1) (by omega)
          have e3 : s[s.length - 3]? = some 45 := by
            rw [hl, hs', getElem?_append_lit ys _ 2 _ (by omega)]; rfl
          have e5 : s[s.length - 5]? = some m1 := by
            rw [hl, hs', getElem?_append_lit ys _ 0 _ (by omega)]; rfl
          have e6' : s[s.length - 6]? = some c6 := by
            rw [hl, hs', List.getElem?_append_left (by omega), ← e6]; congr 1
          have hc6' : (c6 != 45) = true := by
            have := ne45 c6 hc6
            simp only [bne, this, Bool.not_false]
          simp only [e3, e5, e6', beq_self_eq_true, Bool.true_or, if_true, Bool.not_true, Bool.false_or, hc6'] at h
          simp at h
        · -- YYYY-MMDD
          exfalso
          have hs' : s = ys ++ [45, m1, m2, d1, d2] := by rw [hs]; simp [sepOf]
          have hl : s.length = ys.length + 5 := by rw [hs']; simp
          obtain ⟨c6, e6, hc6⟩ := getLast_digit ys hys (ys.length - 1) (by omega)
          have e3 : s[s.length - 3]? = some m2 := by
            rw [hl, hs', getElem?_append_lit ys _ 2 _ (by omega)]; rfl
          have e5 : s[s.length - 5]? = some 45 := by
            rw [hl, hs', getElem?_append_lit ys _ 0 _ (by omega)]; rfl
          have e6' : s[s.length - 6]? = some c6 := by
            rw [hl, hs', List.getElem?_append_left (by omega), ← e6]; congr 1
          simp only [e3, e5, e6', ne45 m2 hmd.2, beq_self_eq_true, Bool.or_true, if_true, Bool.not_false, Bool.true_or] at h
          simp at h
        · -- extended
          have hs' : s = text true ys m1 m2 d1 d2 := by rw [hs]; simp [sepOf, text]
          have hl : s.length = ys.length + 6 := by rw [hs']; simp [text]
          have e3 : s[s.length - 3]? = some 45 := by
            rw [hl, hs']; simp only [text, if_true]
            rw [getElem?_append_lit ys _ 3 _ (by omega)]; rfl
          have e5 : s[s.length - 5]? = some m1 := by
            rw [hl, hs']; simp only [text, if_true]
            rw [getElem?_append_lit ys _ 1 _ (by omega)]; rfl
          have e6 : s[s.length - 6]? = some 45 := by
            rw [hl, hs']; simp only [text, if_true]
            rw [getElem?_append_lit ys _ 0 _ (by omega)]; rfl
          simp only [e3, e5, e6, beq_self_eq_true, Bool.true_or, if_true, Bool.not_true, bne_self_eq_false, Bool.or_self,
            Bool.false_eq_true, if_false] at h
          split at h
          · rename_i hv
            simp only [Outcome.ok.injEq] at h
            exact ⟨true, ys, m1, m2, d1, d2, hs', hys, h4, h9, hm, hd, hv, fun hf => by simp at hf, h.symm⟩
          · simp at h

end U.Date
