import UtilModel.Model.Date
import UtilModel.Lemmas.Calendar
import UtilModel.Lemmas.TieTactics
/-! # package `date`: the model agrees with the decision functions translated from the source on this run -/
set_option linter.unusedSimpArgs false
namespace U.CodeTies
open U

theorem after_tie (d e : Date.Date) : d.after e = Gen.date_After d.year d.month d.day e.year e.month e.day := by
  unfold Date.Date.after Gen.date_After
  ifchain

theorem before_tie (d e : Date.Date) : d.before e = Gen.date_Before d.year d.month d.day e.year e.month e.day := by
  unfold Date.Date.before Gen.date_Before
  ifchain

theorem equal_tie (d e : Date.Date) : d.equal e = Gen.date_Equal d.year d.month d.day e.year e.month e.day := by
  unfold Date.Date.equal Gen.date_Equal
  first | rfl | boolprop

theorem isZero_tie (d : Date.Date) : d.isZero = Gen.date_IsZero d.year d.month d.day := by
  unfold Date.Date.isZero Gen.date_IsZero
  first | rfl | boolprop

theorem validDate_tie (y : Int) (m d : Nat) : Date.validDate y m d = Gen.date_validDate y m d := by
  unfold Date.validDate Gen.date_validDate GoTime.daysIn GoTime.daysInL GoTime.isLeap
  rw [Bool.eq_iff_iff]
  simp only [Bool.and_eq_true, Bool.or_eq_true, decide_eq_true_eq, beq_iff_eq, bne_iff_ne, ne_eq]
  repeat' split
  all_goals (simp only [Bool.false_eq_true, decide_eq_true_eq, iff_false, iff_true]; omega)

/-! ## the filters (`date/filter.go`)

The `Contains` methods are Boolean formulas over `Equal`/`Before`/`After` calls on the filter's fields. Both the model's
comparisons and their translations are first characterised as propositions about the (year, month, day) triples
(`lexLt`); the formulas are then compared as propositions (`dateprop`), so `a.Before(b)` vs `b.After(a)`, reordered
disjuncts, negated forms and if-chains instead of `||` all keep the ties true. -/

/-- lexicographic "earlier than" on (year, month, day) triples -/
def lexLt (a : Int) (b c : Nat) (x : Int) (y z : Nat) : Prop := a < x ∨ (a = x ∧ (b < y ∨ (b = y ∧ c < z)))

theorem gen_before_iff (a : Int) (b c : Nat) (x : Int) (y z : Nat) :
    Gen.date_Before a b c x y z = true ↔ lexLt a b c x y z := by
  unfold Gen.date_Before lexLt
  ifprop

theorem gen_after_iff (a : Int) (b c : Nat) (x : Int) (y z : Nat) :
    Gen.date_After a b c x y z = true ↔ lexLt x y z a b c := by
  unfold Gen.date_After lexLt
  ifprop

theorem gen_equal_iff (a : Int) (b c : Nat) (x : Int) (y z : Nat) :
    Gen.date_Equal a b c x y z = true ↔ (a = x ∧ b = y ∧ c = z) := by
  unfold Gen.date_Equal
  ifprop

theorem before_iff' (d e : Date.Date) : d.before e = true ↔ lexLt d.year d.month d.day e.year e.month e.day := by
  unfold Date.Date.before lexLt
  ifprop
theorem after_iff' (d e : Date.Date) : d.after e = true ↔ lexLt e.year e.month e.day d.year d.month d.day := by
  unfold Date.Date.after lexLt
  ifprop
theorem equal_iff' (d e : Date.Date) : d.equal e = true ↔ (d.year = e.year ∧ d.month = e.month ∧ d.day = e.day) := by
  unfold Date.Date.equal
  ifprop

/-- Boolean formulas over the date comparisons (either side: model methods or their translations): compare them
as propositions about the (year, month, day) triples -/
macro "dateprop" : tactic =>
  `(tactic| (rw [Bool.eq_iff_iff]
             try simp only [Bool.and_eq_true, Bool.or_eq_true, Bool.not_eq_true', ← Bool.not_eq_true,
               gen_before_iff, gen_after_iff, gen_equal_iff, before_iff', after_iff', equal_iff', lexLt]
             try (repeat' split)
             all_goals first
               | omega
               | (simp only [Bool.and_eq_true, Bool.or_eq_true, Bool.not_eq_true', ← Bool.not_eq_true, Bool.false_eq_true,
                    true_iff, iff_true, false_iff, iff_false, not_true_eq_false, not_false_eq_true,
                    gen_before_iff, gen_after_iff, gen_equal_iff, before_iff', after_iff', equal_iff', lexLt]; omega)
               | (simp_all; omega)))

theorem contains_no_tie (x : Date.Date) : Date.Filter.no.contains x = Gen.date_filterNo_Contains x.year x.month x.day := by
  unfold Date.Filter.contains Gen.date_filterNo_Contains
  first | rfl | dateprop
theorem contains_date_tie (d x : Date.Date) :
    (Date.Filter.date d).contains x = Gen.date_filterDate_Contains d.year d.month d.day x.year x.month x.day := by
  unfold Date.Filter.contains Gen.date_filterDate_Contains
  dateprop
theorem contains_from_tie (f x : Date.Date) :
    (Date.Filter.from f).contains x = Gen.date_filterFrom_Contains f.year f.month f.day x.year x.month x.day := by
  unfold Date.Filter.contains Gen.date_filterFrom_Contains
  dateprop
theorem contains_to_tie (t x : Date.Date) :
    (Date.Filter.to t).contains x = Gen.date_filterTo_Contains t.year t.month t.day x.year x.month x.day := by
  unfold Date.Filter.contains Gen.date_filterTo_Contains
  dateprop
theorem contains_fromTo_tie (f t x : Date.Date) :
    (Date.Filter.fromTo f t).contains x
      = Gen.date_filterFromTo_Contains f.year f.month f.day t.year t.month t.day x.year x.month x.day := by
  unfold Date.Filter.contains Gen.date_filterFromTo_Contains
  dateprop


/-! ### `FilterFromTo`: which filter is built, or which error -/

def triple (d : Date.Date) : Int × Nat × Nat := (d.year, d.month, d.day)

/-- a model filter as the translation writes it: Go type name and its `Date` fields in declaration order -/
def encFilter : Date.Filter → String × List (Int × Nat × Nat)
  | .no => ("filterNo", [])
  | .to t => ("filterTo", [triple t])
  | .from f => ("filterFrom", [triple f])
  | .date d => ("filterDate", [triple d])
  | .fromTo f t => ("filterFromTo", [triple f, triple t])

/-- the Go sentinel an error class of package `date` stands for -/
def encErr : Err → String
  | .invalidFromOrTo => "ErrInvalidFromOrTo" | .invalidLength => "ErrInvalidLength"
  | .unsupportedVersion => "ErrUnsupportedVersion" | .invalidDate => "ErrInvalidDate" | e => e.name

def encOut {α β} (enc : α → β) : Outcome α → Except String β
  | .ok a => .ok (enc a) | .err e => .error (encErr e) | .panic => .error "panic"

/-- leaves of a decision tree over date comparisons: equal results, or contradictory path conditions -/
macro "dateleaf" : tactic =>
  `(tactic| first
      | rfl
      | (exfalso
         simp only [Bool.and_eq_true, Bool.or_eq_true, Bool.not_eq_true', ← Bool.not_eq_true, Bool.false_eq_true,
           gen_before_iff, gen_after_iff, gen_equal_iff, before_iff', after_iff', equal_iff', lexLt] at *
         omega)
      | (simp only [encOut, encFilter, triple, Except.ok.injEq, Except.error.injEq, Prod.mk.injEq, List.cons.injEq, and_true, true_and,
           Bool.and_eq_true, Bool.or_eq_true, Bool.not_eq_true', ← Bool.not_eq_true, Bool.false_eq_true,
           gen_before_iff, gen_after_iff, gen_equal_iff, before_iff', after_iff', equal_iff', lexLt] at *
         omega)
      | (simp_all; done))

theorem filterFromTo_tie (fr to : Option Date.Date) :
    encOut encFilter (Date.filterFromTo fr to)
      = Gen.date_FilterFromTo fr.isNone (fr.getD Date.zero).year (fr.getD Date.zero).month (fr.getD Date.zero).day
          to.isNone (to.getD Date.zero).year (to.getD Date.zero).month (to.getD Date.zero).day := by
  cases fr <;> cases to <;>
    simp only [Date.filterFromTo, Gen.date_FilterFromTo, Option.isNone_none, Option.isNone_some, Option.getD_some, Option.getD_none] <;>
    (try (repeat' split)) <;> dateleaf

/-! ## the binary form (`MarshalBinary`, `UnmarshalBinary`)

Translated in the typed mode of the translator (`tools/extract/typed.go`): Go's `int32`/`uint8` arithmetic over `Int`
with explicit wraps (`Gen.wrap_int32`, `Gen.wrap_uint8`), `x >> k` as floor division, `|` of bytes at disjoint
positions as `+`. The model writes the same arithmetic with `wrap32`, `byteOf`, `% 256`; equal results are decided
by `omega` after unfolding both, so other but equal ways of writing the arithmetic keep the ties true. -/

theorem marshalBinary_tie (d : Date.Date) :
    Gen.date_MarshalBinary d.year d.month d.day = .ok ((Date.marshalBinary d).map (fun b : Nat => (b : Int))) := by
  unfold Gen.date_MarshalBinary Date.marshalBinary Date.byteOf Date.wrap32 Gen.wrap_int32 Gen.wrap_uint8
  simp only [List.map_cons, List.map_nil, Except.ok.injEq, List.cons.injEq, and_true, Gen.date_version]
  omega

/-- a stored date as the translation writes the receiver: three integers -/
theorem vd_congr {y1 y2 m d : Int} (h : y1 = y2) : Gen.date_validDate y1 m d = Gen.date_validDate y2 m d := by rw [h]
def itriple (d : Date.Date) : Int × Int × Int := (d.year, d.month, d.day)

/-- leaves of the binary decoder's decision tree: equal results (fixed-width arithmetic unfolded, decided by
`omega`) or contradictory path conditions; `validDate` stays opaque -/
macro "binleaf" : tactic =>
  `(tactic| first
      | (with_reducible rfl)
      | (exfalso
         simp only [Bool.not_eq_true', ← Bool.not_eq_true, Bool.and_eq_true, Bool.or_eq_true, beq_iff_eq, bne_iff_ne, ne_eq,
           decide_eq_true_eq, Decidable.not_not, Gen.date_version] at * <;> (first | contradiction | omega))
      | (simp only [encOut, encErr, itriple, Except.ok.injEq, Except.error.injEq, Prod.mk.injEq, reduceCtorEq, true_and, and_true,
           Bool.not_eq_true', ← Bool.not_eq_true, Bool.and_eq_true, Bool.or_eq_true, beq_iff_eq, bne_iff_ne, ne_eq, decide_eq_true_eq,
           Date.wrap32, Gen.wrap_int32, Gen.wrap_uint8, Gen.date_version] at * <;> omega)
      | (simp_all; done))

/-- one list shape of the decoder: unfold both sides; name the decoded year of either side (the first fixed-width
expression met) and show the two equal as fixed-width arithmetic, so that the two `validDate` calls coincide; make
that call one Boolean, split every condition, close the leaves -/
macro "bincase" : tactic =>
  `(tactic| (
    simp only [Gen.date_UnmarshalBinary, Date.unmarshalBinary, validDate_tie, List.length_cons, List.length_nil,
      List.getD_eq_getElem?_getD, List.getElem?_cons_zero, List.getElem?_cons_succ, Option.getD_some]
    try generalize hY : Gen.wrap_int32 _ = Yg
    try (generalize hM : Date.wrap32 _ = Ym
         have hYM : Yg = Ym := by
           subst hY hM
           simp only [Date.wrap32, Gen.wrap_int32, Gen.wrap_uint8]
           omega
         subst hYM
         clear hM)
    try clear hY
    try generalize Gen.date_validDate _ _ _ = g
    try (repeat' split)
    all_goals binleaf))

theorem unmarshalBinary_tie (dy dm dd : Int) (bs : Bytes) :
    Gen.date_UnmarshalBinary dy dm dd bs = encOut itriple (Date.unmarshalBinary bs) := by
  match bs with
  | [] => bincase
  | [_] => bincase
  | [_, _] => bincase
  | [_, _, _] => bincase
  | [_, _, _, _] => bincase
  | [_, _, _, _, _] => bincase
  | [_, _, _, _, _, _] => bincase
  | [v, b1, b2, b3, b4, m, d] => bincase
  | _ :: _ :: _ :: _ :: _ :: _ :: _ :: _ :: r => bincase

end U.CodeTies

