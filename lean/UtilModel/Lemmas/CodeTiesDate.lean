import UtilModel.Model.Date
import UtilModel.Lemmas.Calendar
import UtilModel.Lemmas.TieTactics
/-! # package `date`: the model agrees with the decision functions translated from the source on this run -/
namespace U.CodeTies
open U

theorem after_tie (d e : Date.Date) : d.after e = Gen.date_After d.year d.month d.day e.year e.month e.day := by
  unfold Date.Date.after Gen.date_After
  ifchain

theorem before_tie (d e : Date.Date) : d.before e = Gen.date_Before d.year d.month d.day e.year e.month e.day := by
  unfold Date.Date.before Gen.date_Before
  ifchain

theorem equal_tie (d e : Date.Date) : d.equal e = Gen.date_Equal d.year d.month d.day e.year e.month e.day := by
  unfold Date.Date.equal Gen.date_Equal
  first | rfl | boolprop

theorem isZero_tie (d : Date.Date) : d.isZero = Gen.date_IsZero d.year d.month d.day := by
  unfold Date.Date.isZero Gen.date_IsZero
  first | rfl | boolprop

theorem validDate_tie (y : Int) (m d : Nat) : Date.validDate y m d = Gen.date_validDate y m d := by
  unfold Date.validDate Gen.date_validDate GoTime.daysIn GoTime.daysInL GoTime.isLeap
  rw [Bool.eq_iff_iff]
  simp only [Bool.and_eq_true, Bool.or_eq_true, decide_eq_true_eq, beq_iff_eq, bne_iff_ne, ne_eq]
  repeat' split
  all_goals (simp only [Bool.false_eq_true, decide_eq_true_eq, iff_false, iff_true]; omega)

end U.CodeTies
