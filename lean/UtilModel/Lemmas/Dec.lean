import UtilModel.Model.Prelude
/-! # Decimal codec lemmas -/
namespace U

theorem fixed_length (w n : Nat) : (fixed w n).length = w := by
  induction w generalizing n with
  | zero => rfl
  | succ w ih => simp [fixed, ih]

theorem ofDigits_append (a b : Bytes) (acc : Nat) :
    ofDigits (a ++ b) acc = ofDigits b (ofDigits a acc) := by
  induction a generalizing acc with
  | nil => rfl
  | cons c cs ih => simp [ofDigits, ih]

theorem ofDigits_fixed (w n acc : Nat) : ofDigits (fixed w n) acc = acc * 10 ^ w + n % 10 ^ w := by
  induction w generalizing n acc with
  | zero => simp [fixed, ofDigits, Nat.mod_one]
  | succ w ih =>
    simp only [fixed, ofDigits_append, ih, ofDigits]
    have h1 : n % 10 ^ (w + 1) = (n / 10 % 10 ^ w) * 10 + n % 10 := by
      rw [Nat.pow_succ', Nat.mod_mul]; omega
    have h2 : 48 + n % 10 - 48 = n % 10 := by omega
    rw [h1, h2, Nat.pow_succ']
    generalize n / 10 % 10 ^ w = q
    generalize 10 ^ w = p
    rw [Nat.add_mul, Nat.mul_assoc, Nat.mul_comm p 10]
    omega

theorem val_fixed (w n : Nat) (h : n < 10 ^ w) : val (fixed w n) = n := by
  simp [val, ofDigits_fixed, Nat.mod_eq_of_lt h]

theorem fixed_isDigit (w n : Nat) : ∀ c ∈ fixed w n, isDigit c = true := by
  induction w generalizing n with
  | zero => simp [fixed]
  | succ w ih =>
    intro c hc
    simp only [fixed, List.mem_append, List.mem_singleton] at hc
    rcases hc with hc | rfl
    · exact ih _ _ hc
    · have : n % 10 < 10 := Nat.mod_lt _ (by decide)
      simp only [isDigit, Bool.and_eq_true, decide_eq_true_eq]
      omega

theorem allDigits_fixed (w n : Nat) : allDigits (fixed w n) = true := by
  simp only [allDigits, List.all_eq_true]
  exact fixed_isDigit w n

theorem fixed2 (n : Nat) : fixed 2 n = [48 + n / 10 % 10, 48 + n % 10] := by
  simp [fixed]

theorem ndigitsF_spec (f n : Nat) : 1 ≤ f → n < 10 ^ f →
    1 ≤ ndigitsF f n ∧ ndigitsF f n ≤ f ∧ n < 10 ^ (ndigitsF f n) := by
  induction f generalizing n with
  | zero => intro h; omega
  | succ f ih =>
    intro _ hn
    simp only [ndigitsF]
    split
    · exact ⟨by omega, by omega, by simpa using ‹n < 10›⟩
    · rename_i h10
      have hf : 1 ≤ f := by
        cases f with
        | zero => simp at hn; omega
        | succ f => omega
      have hn' : n / 10 < 10 ^ f := by
        rw [Nat.pow_succ] at hn
        exact Nat.div_lt_of_lt_mul (by rw [Nat.mul_comm]; exact hn)
      obtain ⟨h1, h2, h3⟩ := ih (n / 10) hf hn'
      refine ⟨by omega, by omega, ?_⟩
      rw [Nat.add_comm 1, Nat.pow_succ]
      omega

theorem ndigitsF_le (f k n : Nat) (hk1 : 1 ≤ k) (hn : n < 10 ^ k) : ndigitsF f n ≤ k := by
  induction f generalizing n k with
  | zero => simp [ndigitsF]
  | succ f ih =>
    simp only [ndigitsF]
    split
    · omega
    · rename_i h10
      cases k with
      | zero => omega
      | succ k =>
        have hk1' : 1 ≤ k := by
          cases k with
          | zero => simp at hn; omega
          | succ k => omega
        have hn' : n / 10 < 10 ^ k := by
          rw [Nat.pow_succ] at hn
          exact Nat.div_lt_of_lt_mul (by rw [Nat.mul_comm]; exact hn)
        have := ih k (n / 10) hk1' hn'
        omega

theorem lt_ten_pow_succ (n : Nat) : n < 10 ^ (n + 1) := by
  induction n with
  | zero => decide
  | succ n ih => rw [Nat.pow_succ]; omega

/-- `ndigits n` digits always suffice -/
theorem ndigits_spec (n : Nat) : 1 ≤ ndigits n ∧ n < 10 ^ ndigits n :=
  let h := ndigitsF_spec (n + 1) n (by omega) (lt_ten_pow_succ n)
  ⟨h.1, h.2.2⟩

theorem ndigits_le (k n : Nat) (hk1 : 1 ≤ k) (hn : n < 10 ^ k) : ndigits n ≤ k :=
  ndigitsF_le _ k n hk1 hn

/-- `%0Wd` of a number below `10^w` is exactly `w` digits -/
theorem padDec_small (w n : Nat) (hw : 1 ≤ w) (h : n < 10 ^ w) : padDec w n = fixed w n := by
  unfold padDec
  have := ndigits_le w n hw h
  rw [Nat.max_eq_left this]

/-- `%0Wd` in general: some width between `w` and `k` that holds the number -/
theorem padDec_spec (w k n : Nat) (hk1 : 1 ≤ k) (hwk : w ≤ k) (h : n < 10 ^ k) :
    ∃ v, padDec w n = fixed v n ∧ w ≤ v ∧ v ≤ k ∧ n < 10 ^ v := by
  refine ⟨max w (ndigits n), rfl, Nat.le_max_left _ _, ?_, ?_⟩
  · have := ndigits_le k n hk1 h; omega
  · exact Nat.lt_of_lt_of_le (ndigits_spec n).2 (Nat.pow_le_pow_right (by decide) (Nat.le_max_right _ _))

theorem dec_spec (n : Nat) : dec n = fixed (ndigits n) n := rfl

theorem val_dec (n : Nat) : val (dec n) = n := val_fixed _ _ (ndigits_spec n).2

theorem allDigits_dec (n : Nat) : allDigits (dec n) = true := allDigits_fixed _ _

theorem dec_length_pos (n : Nat) : 1 ≤ (dec n).length := by
  rw [dec_spec, fixed_length]; exact (ndigits_spec n).1

theorem padDecInt_nonneg (w : Nat) (n : Int) (h : 0 ≤ n) : padDecInt w n = padDec w n.toNat := by
  unfold padDecInt; rw [if_neg (by omega)]

end U

namespace U

theorem ofDigits_lt (s : Bytes) (acc : Nat) (h : allDigits s = true) :
    ofDigits s acc < (acc + 1) * 10 ^ s.length := by
  induction s generalizing acc with
  | nil => simp [ofDigits]
  | cons c t ih =>
    simp only [allDigits, List.all_cons, Bool.and_eq_true] at h
    have hc := h.1
    simp only [isDigit, Bool.and_eq_true, decide_eq_true_eq] at hc
    have := ih (acc * 10 + (c - 48)) (by simpa [allDigits] using h.2)
    simp only [ofDigits, List.length_cons, Nat.pow_succ]
    have hle : (acc * 10 + (c - 48) + 1) ≤ (acc + 1) * 10 := by omega
    calc ofDigits t (acc * 10 + (c - 48)) < (acc * 10 + (c - 48) + 1) * 10 ^ t.length := this
      _ ≤ ((acc + 1) * 10) * 10 ^ t.length := Nat.mul_le_mul_right _ hle
      _ = (acc + 1) * (10 ^ t.length * 10) := by rw [Nat.mul_assoc, Nat.mul_comm 10]

/-- a digit string of length `k` is below `10^k` -/
theorem val_lt (s : Bytes) (h : allDigits s = true) : val s < 10 ^ s.length := by
  have := ofDigits_lt s 0 h
  simpa [val] using this

end U
