import UtilModel.Model.UU
import UtilModel.Lemmas.UUText
import UtilModel.Lemmas.TieTactics
/-! # package `uu`: the model agrees with `parseDigit`, `ID.Version`, `ID.Variant` as translated from the source on this run -/
set_option linter.unusedSimpArgs false
namespace U.CodeTies
open U

theorem parseDigit_tie (c : Nat) (au : Bool) :
    UU.parseDigit c au = (if (Gen.uu_parseDigit c au).2 then some (Gen.uu_parseDigit c au).1 else none) := by
  unfold UU.parseDigit Gen.uu_parseDigit
  cases au <;> ifchain

/-! ## `ID.Version`, `ID.Variant`: masks and shifts of 64-bit words, compared as quotients and remainders -/

theorem and_low_mask (x k : Nat) : x &&& (2 ^ k - 1) = x % 2 ^ k := Nat.and_two_pow_sub_one_eq_mod x k
theorem low_mask_and (x k : Nat) : (2 ^ k - 1) &&& x = x % 2 ^ k := by rw [Nat.and_comm]; exact and_low_mask x k

theorem and_bit_eq_zero (x k : Nat) : x &&& 2 ^ k = 0 ↔ x / 2 ^ k % 2 = 0 := by
  have key : x &&& 2 ^ k = 0 ↔ x.testBit k = false := by
    constructor
    · intro h
      have := congrArg (fun n => n.testBit k) h
      simpa [Nat.testBit_and, Nat.testBit_two_pow] using this
    · intro h
      apply Nat.eq_of_testBit_eq
      intro j
      simp only [Nat.testBit_and, Nat.testBit_two_pow, Nat.zero_testBit]
      by_cases hj : k = j
      · subst hj; simp [h]
      · simp [hj]
  rw [key, Nat.testBit_eq_decide_div_mod_eq, decide_eq_false_iff_not]
  omega
theorem bit_and_eq_zero (x k : Nat) : 2 ^ k &&& x = 0 ↔ x / 2 ^ k % 2 = 0 := by rw [Nat.and_comm]; exact and_bit_eq_zero x k

/-- the masks that occur, as instances with numerals (simp cannot see `15 = 2^4 - 1`) -/
theorem and_15 (x : Nat) : x &&& 15 = x % 16 := and_low_mask x 4
theorem and_15' (x : Nat) : 15 &&& x = x % 16 := low_mask_and x 4
theorem and_b63 (x : Nat) : x &&& 9223372036854775808 = 0 ↔ x / 9223372036854775808 % 2 = 0 := and_bit_eq_zero x 63
theorem and_b62 (x : Nat) : x &&& 4611686018427387904 = 0 ↔ x / 4611686018427387904 % 2 = 0 := and_bit_eq_zero x 62
theorem and_b61 (x : Nat) : x &&& 2305843009213693952 = 0 ↔ x / 2305843009213693952 % 2 = 0 := and_bit_eq_zero x 61
theorem and_b63' (x : Nat) : 9223372036854775808 &&& x = 0 ↔ x / 9223372036854775808 % 2 = 0 := bit_and_eq_zero x 63
theorem and_b62' (x : Nat) : 4611686018427387904 &&& x = 0 ↔ x / 4611686018427387904 % 2 = 0 := bit_and_eq_zero x 62
theorem and_b61' (x : Nat) : 2305843009213693952 &&& x = 0 ↔ x / 2305843009213693952 % 2 = 0 := bit_and_eq_zero x 61

/-- an if-chain over masks/shifts of words below 2^64, against quotient/remainder form -/
macro "wordprop" : tactic =>
  `(tactic| (simp only [beq_iff_eq, bne_iff_ne, ne_eq, decide_eq_true_eq, Bool.and_eq_true, Bool.or_eq_true, Bool.not_eq_true',
               beq_eq_false_iff_ne, decide_eq_false_iff_not, eq_comm (a := (0 : Nat)),
               Nat.shiftRight_eq_div_pow, and_15, and_15', and_b63, and_b62, and_b61, and_b63', and_b62', and_b61', Nat.reducePow]
             try (repeat' split)
             all_goals first | omega | (simp_all; omega)))

theorem version_tie (i : UU.ID) : i.version = Gen.uu_Version i.hi.toNat i.lo.toNat := by
  rw [UU.version_nibble, UU.nibble_hi i 12 (by decide)]
  have hh := i.hi.isLt
  have hl := i.lo.isLt
  generalize i.hi.toNat = h at *
  generalize i.lo.toNat = l at *
  unfold Gen.uu_Version
  wordprop

theorem variant_tie (i : UU.ID) : i.variant = Gen.uu_Variant i.hi.toNat i.lo.toNat := by
  rw [UU.variant_nibble, UU.nibble_lo i 16 (by decide) (by decide)]
  have hh := i.hi.isLt
  have hl := i.lo.isLt
  generalize i.hi.toNat = h at *
  generalize i.lo.toNat = l at *
  unfold Gen.uu_Variant UU.leadingOnes3
  wordprop

end U.CodeTies
