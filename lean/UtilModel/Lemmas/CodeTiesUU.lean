import UtilModel.Model.UU
import UtilModel.Lemmas.TieTactics
/-! # package `uu`: the model agrees with `parseDigit` as translated from the source on this run -/
namespace U.CodeTies
open U

theorem parseDigit_tie (c : Nat) (au : Bool) :
    UU.parseDigit c au = (if (Gen.uu_parseDigit c au).2 then some (Gen.uu_parseDigit c au).1 else none) := by
  unfold UU.parseDigit Gen.uu_parseDigit
  cases au <;> ifchain

end U.CodeTies
