import UtilModel.Props.C13
import UtilModel.Lemmas.JsonScan
/-!
# Size: every marshalled form parses back to the same size (helper lemmas for C04)
-/
namespace U.Size
open U U.GoJson

/-! ## decimal text has no leading zero -/

theorem fixed_succ_head (w n : Nat) : fixed (w + 1) n = (48 + n / 10 ^ w % 10) :: fixed w n := by
  induction w generalizing n with
  | zero => simp [fixed]
  | succ w ih =>
    rw [fixed, ih (n / 10)]
    simp only [List.cons_append, Nat.div_div_eq_div_mul]
    rw [Nat.pow_succ, Nat.mul_comm 10]
    rfl

theorem ndigitsF_lower (f n : Nat) (hn : 0 < n) : 10 ^ (ndigitsF f n - 1) ≤ n := by
  induction f generalizing n with
  | zero => simp [ndigitsF]; omega
  | succ f ih =>
    simp only [ndigitsF]
    split
    · simp; omega
    · have := ih (n / 10) (by omega)
      generalize ndigitsF f (n / 10) = k at this ⊢
      cases k with
      | zero => simp; omega
      | succ k =>
        simp only [Nat.add_sub_cancel] at this
        have e : 1 + (k + 1) - 1 = k + 1 := by omega
        rw [e, Nat.pow_succ]; omega

theorem dec_canon (n : Nat) : Canon (dec n) := by
  by_cases h0 : n = 0
  · subst h0; left; decide
  · right
    obtain ⟨h1, h2⟩ := ndigits_spec n
    have h3 := ndigitsF_lower (n + 1) n (by omega)
    have hd := allDigits_dec n
    rw [dec_spec] at hd ⊢
    change 10 ^ (ndigits n - 1) ≤ n at h3
    generalize ndigits n = w at *
    cases w with
    | zero => omega
    | succ w =>
      simp only [Nat.add_sub_cancel] at h3
      rw [fixed_succ_head] at hd ⊢
      rw [Nat.pow_succ] at h2
      have hq1 : 1 ≤ n / 10 ^ w := (Nat.le_div_iff_mul_le (Nat.pow_pos (by decide))).2 (by omega)
      have hq2 : n / 10 ^ w < 10 := Nat.div_lt_of_lt_mul h2
      simp only [allDigits, List.all_cons, Bool.and_eq_true] at hd
      exact ⟨_, _, rfl, hd.1, by omega, hd.2⟩

theorem isDigit_range (c : Nat) : isDigit c = true ↔ 48 ≤ c ∧ c ≤ 57 := by
  simp only [isDigit, Bool.and_eq_true, decide_eq_true_eq]

/-- `prepareNumber` collects the digits and skips the single spaces between them -/
theorem prepareNumber_withSeps (cond : Nat → Bool) (ds : Bytes) (i : Nat) (rest n : Bytes)
    (hd : allDigits ds = true) :
    prepareNumber (withSeps [32] cond ds i ++ rest) n = prepareNumber rest (ds.reverse ++ n) := by
  induction ds generalizing i n with
  | nil => simp [withSeps]
  | cons d ds ih =>
    simp only [allDigits, List.all_cons, Bool.and_eq_true] at hd
    have hdig := hd.1
    have hd' := (isDigit_range d).1 hd.1
    have h32 : d ≠ 32 := by omega
    have h95 : d ≠ 95 := by omega
    have step : ∀ t, prepareNumber (d :: t) n = prepareNumber t (d :: n) := by
      intro t
      rw [prepareNumber.eq_def]; simp [h32, h95, hdig]
    simp only [withSeps]
    cases cond i
    · simp only [Bool.false_eq_true, if_false, List.cons_append, List.nil_append, step]
      rw [ih (i + 1) (d :: n) (by simpa [allDigits] using hd.2)]
      simp
    · simp only [if_true, List.cons_append, List.nil_append, step]
      rw [show prepareNumber (32 :: (withSeps [32] cond ds (i + 1) ++ rest)) (d :: n) =
        prepareNumber (withSeps [32] cond ds (i + 1) ++ rest) (d :: n) by rw [prepareNumber.eq_def]; simp]
      rw [ih (i + 1) (d :: n) (by simpa [allDigits] using hd.2)]
      simp

/-- the seven binary units of `Shorten` -/
def binUnits : List Bytes := [[66], [75, 105, 66], [77, 105, 66], [71, 105, 66], [84, 105, 66], [80, 105, 66], [69, 105, 66]]

theorem prepareNumber_unit (u : Bytes) (hu : u ∈ binUnits) (n : Bytes) :
    prepareNumber u n = (n.reverse, u) := by
  simp only [binUnits, List.mem_cons, List.mem_nil_iff, or_false] at hu
  rcases hu with rfl | rfl | rfl | rfl | rfl | rfl | rfl <;>
    simp [prepareNumber, isDigit, trimRightSp]

theorem prepareNumber_spaced_unit (cond : Nat → Bool) (ds u : Bytes) (hd : allDigits ds = true)
    (hu : u ∈ binUnits) : prepareNumber (withSeps [32] cond ds 0 ++ u) [] = (ds, u) := by
  rw [prepareNumber_withSeps cond ds 0 u [] hd, prepareNumber_unit u hu]; simp

theorem prepareNumber_plain_unit (ds u : Bytes) (hd : allDigits ds = true)
    (hu : u ∈ binUnits) : prepareNumber (ds ++ u) [] = (ds, u) := by
  have := prepareNumber_spaced_unit (fun _ => false) ds u hd hu
  have e : ∀ (ds : Bytes) i, withSeps [32] (fun _ => false) ds i = ds := by
    intro ds; induction ds with
    | nil => intro i; rfl
    | cons d ds ih => intro i; simp [withSeps, ih]
  rw [e] at this; exact this

theorem prepareNumber_digits (ds : Bytes) (hd : allDigits ds = true) : prepareNumber ds [] = (ds, []) := by
  have := prepareNumber_withSeps (fun _ => false) ds 0 [] [] hd
  have e : ∀ (ds : Bytes) i, withSeps [32] (fun _ => false) ds i = ds := by
    intro ds; induction ds with
    | nil => intro i; rfl
    | cons d ds ih => intro i; simp [withSeps, ih]
  rw [e] at this
  simpa [prepareNumber] using this

/-- what the parser needs to know about `Shorten`: value below 2^64, one of the seven binary units,
and `newSize` of the pair is the size again -/
theorem shorten_newSize (s : Nat) (hs : s < two64) :
    (shorten s).1 ≤ s ∧ (shorten s).2 ∈ binUnits ∧ newSize (shorten s).1 (shorten s).2 = .ok s := by
  obtain ⟨k, hk, hu, hv, _, h0⟩ := U.Props.C13.shorten_exact_maximal s hs
  generalize shorten s = r at *
  obtain ⟨v, u⟩ := r
  simp only at hu hv h0 ⊢
  have hpos : 0 < 1024 ^ k := Nat.pow_pos (by decide)
  have hle : v ≤ s := by
    rw [← hv]; exact Nat.le_mul_of_pos_right _ hpos
  have hk' : k = 0 ∨ k = 1 ∨ k = 2 ∨ k = 3 ∨ k = 4 ∨ k = 5 ∨ k = 6 := by omega
  have key : u ∈ binUnits ∧ Gen.size_zeroUnits.contains u = true ∧ u.isEmpty = false ∧
      lookupUnit u = some (1024 ^ k) := by
    rcases hk' with rfl | rfl | rfl | rfl | rfl | rfl | rfl <;>
      (simp only [U.Props.C13.binaryUnits, List.getElem?_cons_zero, List.getElem?_cons_succ,
         Option.some.injEq, Prod.mk.injEq] at hu
       rw [← hu.1]; decide)
  obtain ⟨k1, k2, k3, k4⟩ := key
  refine ⟨hle, k1, ?_⟩
  unfold newSize
  by_cases hv0 : v = 0
  · rw [if_pos hv0, k2]
    subst hv0
    simp at hv
    simp [hv]
  · rw [if_neg hv0, k3]
    simp only [Bool.false_eq_true, if_false, k4]
    rw [hv, if_neg (by omega)]


/-! ## text parser on marshalled forms -/

theorem dec_lt_two64_length (v : Nat) (hv : v < two64) : (dec v).length ≤ 20 := by
  rw [dec_spec, fixed_length]
  exact ndigits_le 20 v (by decide) (Nat.lt_trans hv (by decide))

theorem isEmpty_false_of_length_pos (l : Bytes) (h : 1 ≤ l.length) : l.isEmpty = false := by
  cases l with
  | nil => simp at h
  | cons _ _ => rfl

/-- the text parser on `number ++ unit` once `prepareNumber` has split it -/
theorem unmarshalText_of_prepare (x u : Bytes) (v s : Nat) (hv : v < two64)
    (hp : prepareNumber x [] = (dec v, u)) (hu : u ∈ binUnits) (hn : newSize v u = .ok s) :
    unmarshalText false x = .ok s := by
  unfold unmarshalText
  rw [hp]
  simp only [val_dec]
  rw [isEmpty_false_of_length_pos _ (dec_length_pos v)]
  have hue : u.isEmpty = false := by
    simp only [binUnits, List.mem_cons, List.mem_nil_iff, or_false] at hu
    rcases hu with rfl | rfl | rfl | rfl | rfl | rfl | rfl <;> rfl
  rw [hue]
  simp only [Bool.false_eq_true, if_false]
  rw [if_neg (by omega)]
  exact hn

theorem unmarshalText_dec (du : Bool) (s : Nat) (hs : s < two64) : unmarshalText du (dec s) = .ok s := by
  unfold unmarshalText
  rw [prepareNumber_digits _ (allDigits_dec s)]
  simp only [val_dec]
  rw [isEmpty_false_of_length_pos _ (dec_length_pos s)]
  simp only [Bool.false_eq_true, if_false, List.isEmpty_nil, if_true]
  rw [if_neg (by omega)]

theorem unmarshalText_plain (s : Nat) (hs : s < two64) :
    unmarshalText false (dec (shorten s).1 ++ (shorten s).2) = .ok s := by
  obtain ⟨h1, h2, h3⟩ := shorten_newSize s hs
  exact unmarshalText_of_prepare _ _ _ _ (by omega) (prepareNumber_plain_unit _ _ (allDigits_dec _) h2) h2 h3

theorem unmarshalText_spaced (cond : Nat → Bool) (s : Nat) (hs : s < two64) :
    unmarshalText false (withSeps [32] cond (dec (shorten s).1) 0 ++ (shorten s).2) = .ok s := by
  obtain ⟨h1, h2, h3⟩ := shorten_newSize s hs
  exact unmarshalText_of_prepare _ _ _ _ (by omega) (prepareNumber_spaced_unit _ _ _ (allDigits_dec _) h2) h2 h3

theorem format_plain (s : Nat) : format [] s 0 = dec (shorten s).1 ++ (shorten s).2 :=
  U.Props.C13.plain s 0 (by decide)

theorem format_pretty (s : Nat) : format [] s Gen.size_FormatPretty =
    withSeps [32] (fun i => decide (((dec (shorten s).1).length - 1 - i) % 3 = 0)) (dec (shorten s).1) 0
      ++ (shorten s).2 := by
  have := U.Props.C13.pretty s Gen.size_FormatPretty (by decide)
  rw [this]
  have : hasFlag Gen.size_FormatPretty Gen.size_FormatHTML = false := by decide
  rw [this]; rfl

theorem unmarshalText_marshalText (c : MarshalCfg) (s : Nat) (hs : s < two64) :
    unmarshalText false (marshalText c s) = .ok s := by
  unfold marshalText
  cases c.disableTextUnit
  · simp only [Bool.false_eq_true, if_false]; rw [format_plain]; exact unmarshalText_plain s hs
  · simp only [if_true]; exact unmarshalText_dec false s hs

/-! ## lengths -/

theorem withSeps_length_le (sep : Bytes) (cond : Nat → Bool) (ds : Bytes) (i : Nat) :
    (withSeps sep cond ds i).length ≤ (1 + sep.length) * ds.length := by
  induction ds generalizing i with
  | nil => simp [withSeps]
  | cons d ds ih =>
    have := ih (i + 1)
    simp only [withSeps, List.length_append, List.length_cons, Nat.mul_add, Nat.mul_one]
    split <;> simp <;> omega

theorem unit_length_le (u : Bytes) (hu : u ∈ binUnits) : u.length ≤ 3 := by
  simp only [binUnits, List.mem_cons, List.mem_nil_iff, or_false] at hu
  rcases hu with rfl | rfl | rfl | rfl | rfl | rfl | rfl <;> decide

theorem format_plain_length (s : Nat) (hs : s < two64) : (format [] s 0).length ≤ 23 := by
  obtain ⟨h1, h2, _⟩ := shorten_newSize s hs
  have := dec_lt_two64_length (shorten s).1 (by omega)
  have := unit_length_le _ h2
  rw [format_plain, List.length_append]; omega

theorem format_pretty_length (s : Nat) (hs : s < two64) : (format [] s Gen.size_FormatPretty).length ≤ 43 := by
  obtain ⟨h1, h2, _⟩ := shorten_newSize s hs
  have := dec_lt_two64_length (shorten s).1 (by omega)
  have := unit_length_le _ h2
  have h := withSeps_length_le [32] (fun i => decide (((dec (shorten s).1).length - 1 - i) % 3 = 0)) (dec (shorten s).1) 0
  simp only [List.length_cons, List.length_nil] at h
  rw [format_pretty, List.length_append]; omega

theorem marshalText_length (c : MarshalCfg) (s : Nat) (hs : s < two64) : (marshalText c s).length ≤ 23 := by
  unfold marshalText
  split
  · have := dec_lt_two64_length s hs; omega
  · exact format_plain_length s hs

theorem marshalJSON_length (c : MarshalCfg) (s : Nat) (hs : s < two64) : (marshalJSON c s).length ≤ 43 := by
  unfold marshalJSON
  split
  · unfold marshalJSONObject
    obtain ⟨h1, h2, _⟩ := shorten_newSize s hs
    have := dec_lt_two64_length (shorten s).1 (by omega)
    have := unit_length_le _ h2
    simp only [List.length_append, Gen.size_jsonObjOpen, Gen.size_jsonObjMid, Gen.size_jsonObjClose, List.length_cons, List.length_nil]
    omega
  · split
    · have := marshalText_length c s hs
      simp only [List.length_append, List.length_cons, List.length_nil]; omega
    · have := dec_lt_two64_length s hs; omega

/-! ## JSON forms -/

theorem ruleText : Rule.ofNat (Gen.size_DefaultRule &&& Gen.size_ruleUnmarshalTextMask) = ⟨false, false, false, false⟩ := by decide
theorem ruleJSON : Rule.ofNat Gen.size_DefaultRule = ⟨false, true, true, false⟩ := by decide

theorem expectEOF_nil (st : TState) (stk : List TState) : expectEOF ⟨[], st, stk⟩ = .ok () := by
  unfold expectEOF; rw [token_eof]

/-! ### number form -/
theorem unmarshalJSON_number (maxKeys : Nat) (r : Rule) (s : Nat) (hs : s < two64) :
    unmarshalJSON maxKeys r (dec s) = .ok s := by
  have ht : (Dec.init (dec s)).token = .ok (.num (dec s), ⟨[], .topValue, []⟩) := by
    have := tokenF_num (dec s).length (dec s) [] .topValue [] rfl (dec_canon s) rfl
    simpa [Dec.token, Dec.init, valueEnd] using this
  unfold unmarshalJSON
  rw [ht]
  simp only [expectEOF_nil, Outcome.bind, unmarshalText_dec false s hs]

/-! ### string form -/
theorem digits_plain (ds : Bytes) (h : allDigits ds = true) : ds.all plainByte = true := by
  simp only [allDigits, List.all_eq_true] at h ⊢
  intro c hc
  have := (isDigit_range c).1 (h c hc)
  simp only [plainByte, Bool.and_eq_true, decide_eq_true_eq, bne_iff_ne]; omega

theorem unit_plain (u : Bytes) (hu : u ∈ binUnits) : u.all plainByte = true := by
  simp only [binUnits, List.mem_cons, List.mem_nil_iff, or_false] at hu
  rcases hu with rfl | rfl | rfl | rfl | rfl | rfl | rfl <;> decide

theorem marshalText_plain (c : MarshalCfg) (s : Nat) (hs : s < two64) : (marshalText c s).all plainByte = true := by
  unfold marshalText
  split
  · exact digits_plain _ (allDigits_dec s)
  · rw [format_plain, List.all_append, digits_plain _ (allDigits_dec _), unit_plain _ (shorten_newSize s hs).2.1]; rfl

theorem unmarshalJSON_string (maxKeys : Nat) (r : Rule) (hr : r.jsonString = true) (body : Bytes)
    (hb : body.all plainByte = true) :
    unmarshalJSON maxKeys r (34 :: body ++ [34]) = unmarshalText false body := by
  have ht : (Dec.init (34 :: body ++ [34])).token = .ok (.str body, ⟨[], .topValue, []⟩) := by
    have := tokenF_str (34 :: body ++ [34]).length body [] .topValue [] rfl hb
    simpa [Dec.token, Dec.init, valueEnd] using this
  unfold unmarshalJSON
  rw [ht]
  simp only [hr, Bool.not_true, Bool.false_eq_true, if_false, expectEOF_nil, Outcome.bind]


theorem parseUintLit_canon (ds : Bytes) (h : Canon ds) (hv : val ds < two64) : parseUintLit ds = .ok (val ds) := by
  obtain ⟨c, t, rfl, _⟩ := h.head
  unfold parseUintLit
  rw [h.allDigits]
  simp only [List.isEmpty_cons, Bool.not_true, Bool.or_self, Bool.false_eq_true, if_false]
  rw [if_neg (by omega)]

/-- text after the opening brace of the object form -/
def objTail (ds u : Bytes) : Bytes :=
  34 :: (Gen.size_ObjectKeyValue ++ 34 :: 58 :: (ds ++ 44 :: 34 :: (Gen.size_ObjectKeyUnit ++ 34 :: 58 :: 34 :: (u ++ [34, 125]))))

theorem objForm (ds u : Bytes) :
    Gen.size_jsonObjOpen ++ ds ++ Gen.size_jsonObjMid ++ u ++ Gen.size_jsonObjClose = 123 :: objTail ds u := by
  simp [Gen.size_jsonObjOpen, Gen.size_jsonObjMid, Gen.size_jsonObjClose, objTail, Gen.size_ObjectKeyValue, Gen.size_ObjectKeyUnit]

/-- the member loop on `"value":V,"unit":"U"}` -/
theorem objectLoop_pair (maxKeys : Nat) (hk : maxKeys = 0 ∨ 2 ≤ maxKeys) (du : Bool) (f : Nat)
    (ds u : Bytes) (stk : List TState) (hds : Canon ds) (hv : val ds < two64) (hu : u.all plainByte = true) :
    objectLoop maxKeys du (f + 3) 0 ⟨objTail ds u, .objectStart, stk⟩ none none =
      (newSize (val ds) u).map (·, ⟨[125], .objectComma, stk⟩) := by
  have kv : Gen.size_ObjectKeyValue.all plainByte = true := by decide
  have ku : Gen.size_ObjectKeyUnit.all plainByte = true := by decide
  have lv : (lowerKey Gen.size_ObjectKeyValue == Gen.size_ObjectKeyValue) = true := by decide
  have lu1 : (lowerKey Gen.size_ObjectKeyUnit == Gen.size_ObjectKeyValue) = false := by decide
  have lu2 : (lowerKey Gen.size_ObjectKeyUnit == Gen.size_ObjectKeyUnit) = true := by decide
  have g0 : ¬ (maxKeys ≠ 0 ∧ 0 > maxKeys) := by omega
  have g1 : ¬ (maxKeys ≠ 0 ∧ 0 + 1 > maxKeys) := by omega
  have g2 : ¬ (maxKeys ≠ 0 ∧ 0 + 1 + 1 > maxKeys) := by omega
  unfold objTail
  -- first member: "value": V
  rw [objectLoop, if_neg g0, more_cons _ _ _ _ (by decide), token_key _ _ _ kv]
  simp only [lv, if_true, decodeValue]
  rw [token_colon_num ds _ _ hds rfl]
  simp only [parseUintLit_canon ds hds hv, Outcome.map]
  -- second member: ,"unit": "U"
  rw [objectLoop, if_neg g1, more_cons _ _ _ _ (by decide), token_comma_key _ _ _ ku]
  simp only [lu1, lu2, if_true, decodeUnit]
  rw [token_colon_str u _ _ hu]
  simp only
  -- closing brace
  rw [objectLoop, if_neg g2, more_cons _ _ _ _ (by decide)]
  simp [newOrError]
  rfl

theorem unmarshalJSON_object (maxKeys : Nat) (hk : maxKeys = 0 ∨ 2 ≤ maxKeys) (r : Rule) (hr : r.jsonObject = true)
    (ds u : Bytes) (n : Nat) (hds : Canon ds) (hv : val ds < two64) (hu : u.all plainByte = true)
    (hn : newSize (val ds) u = .ok n) :
    unmarshalJSON maxKeys r (Gen.size_jsonObjOpen ++ ds ++ Gen.size_jsonObjMid ++ u ++ Gen.size_jsonObjClose) = .ok n := by
  rw [objForm]
  unfold unmarshalJSON
  rw [Dec.init, token_open _ _ _ rfl]
  simp only [bne_self_eq_false, Bool.false_eq_true, if_false, hr, Bool.not_true]
  rw [show (123 :: objTail ds u).length + 2 = (objTail ds u).length + 3 from rfl,
    objectLoop_pair maxKeys hk _ _ ds u _ hds hv hu, hn]
  simp only [Outcome.map]
  rw [token_close]
  simp only [valueEnd, expectEOF_nil]

theorem unmarshalJSON_marshalJSONObject (maxKeys : Nat) (hk : maxKeys = 0 ∨ 2 ≤ maxKeys) (r : Rule)
    (hr : r.jsonObject = true) (s : Nat) (hs : s < two64) :
    unmarshalJSON maxKeys r (marshalJSONObject s) = .ok s := by
  obtain ⟨h1, h2, h3⟩ := shorten_newSize s hs
  have e : marshalJSONObject s = Gen.size_jsonObjOpen ++ dec (shorten s).1 ++ Gen.size_jsonObjMid ++ (shorten s).2 ++
      Gen.size_jsonObjClose := rfl
  rw [e]
  exact unmarshalJSON_object maxKeys hk r hr (dec (shorten s).1) (shorten s).2 s (dec_canon _) (by rw [val_dec]; omega)
    (unit_plain _ h2) (by rw [val_dec]; exact h3)

theorem unmarshalJSON_marshalJSON (maxKeys : Nat) (hk : maxKeys = 0 ∨ 2 ≤ maxKeys) (r : Rule)
    (hro : r.jsonObject = true) (hrs : r.jsonString = true) (c : MarshalCfg) (s : Nat) (hs : s < two64) :
    unmarshalJSON maxKeys r (marshalJSON c s) = .ok s := by
  unfold marshalJSON
  split
  · exact unmarshalJSON_marshalJSONObject maxKeys hk r hro s hs
  · split
    · rw [unmarshalJSON_string maxKeys r hrs _ (marshalText_plain c s hs)]
      exact unmarshalText_marshalText c s hs
    · exact unmarshalJSON_number maxKeys r s hs

end U.Size
