import UtilModel.Model.Extra
import UtilModel.Model.Hist
import UtilModel.Lemmas.DateBasics
/-!
# Helper lemmas for EXTRA (behaviour outside the twenty properties, DESIGN.md §9.5)

`sem`: `New`, `Core`, `IsZero`, the zero constants. `date`: accessors, `Time`, `Value`. The generic part of
the `Formatter` / `Parser` variables (`orDefault`, `assign`) and its translation into the receiver histories
of `Model/Hist.lean`.
-/

namespace U.Sem
open U

theorem new_panic_iff (a b c : Nat) (xs : List Bytes) : Sem.new a b c xs = .panic ↔ 2 < xs.length := by
  unfold Sem.new
  match xs with
  | [] => simp
  | [_] => simp
  | [_, _] => simp
  | _ :: _ :: _ :: _ => simp

theorem new_fields (a b c : Nat) (xs : List Bytes) (h : xs.length ≤ 2) :
    Sem.new a b c xs = .ok ⟨a, b, c, xs.getD 0 [], xs.getD 1 []⟩ := by
  unfold Sem.new
  match xs, h with
  | [], _ => rfl
  | [_], _ => rfl
  | [_, _], _ => rfl
  | _ :: _ :: _ :: _, h => exact absurd h (by simp)

theorem comparePre_nil_right (a : Bytes) : comparePre a [] = if a = [] then 0 else -1 := by
  unfold comparePre
  cases a <;> simp

theorem comparePre_nil_left (a : Bytes) : comparePre [] a = if a = [] then 0 else 1 := by
  unfold comparePre
  cases a <;> simp

theorem compare_same_numbers (v w : Ver) (h1 : v.major = w.major) (h2 : v.minor = w.minor) (h3 : v.patch = w.patch) :
    v.compare w = comparePre v.pre w.pre := by
  unfold Ver.compare
  simp [h1, h2, h3]

theorem compare_core (v : Ver) : v.compare v.core = if v.pre = [] then 0 else -1 := by
  rw [compare_same_numbers v v.core rfl rfl rfl]
  exact comparePre_nil_right v.pre

theorem core_compare (v : Ver) : v.core.compare v = if v.pre = [] then 0 else 1 := by
  rw [compare_same_numbers v.core v rfl rfl rfl]
  exact comparePre_nil_left v.pre

theorem isZero_iff (v : Ver) : v.isZero = true ↔ v = Ver.zero := by
  obtain ⟨a, b, c, p, q⟩ := v
  unfold Ver.isZero Ver.zero
  simp only [Bool.and_eq_true, beq_iff_eq, Ver.mk.injEq]
  constructor
  · rintro ⟨⟨⟨⟨h1, h2⟩, h3⟩, h4⟩, h5⟩; exact ⟨h1, h2, h3, h4, h5⟩
  · rintro ⟨h1, h2, h3, h4, h5⟩; exact ⟨⟨⟨⟨h1, h2⟩, h3⟩, h4⟩, h5⟩

theorem zero_text : Sem.toString Ver.zero = zeroString ∧ Sem.stringTag Ver.zero = zeroStringTag := by decide

theorem zero_parse : parseEntry Gen.sem_MaxInputLength .default zeroString = .ok Ver.zero
    ∧ parseEntry Gen.sem_MaxInputLength .parseTag zeroStringTag = .ok Ver.zero := by decide

theorem core_valid (v : Ver) : v.core.valid = .ok () := by
  unfold Ver.valid Ver.core
  simp
end U.Sem

namespace U.Date
open U U.GoTime

theorem accessors_eq_date (d : Date) : (d.yearOf, d.monthOf, d.dayOf) = d.date := rfl

theorem timeAbs_eq_ordinal (d : Date) : d.timeAbs = (d.ordinal - 1) * 86400 := rfl

theorem timeAbs_midnight (d : Date) : d.timeAbs % 86400 = 0 := by
  unfold Date.timeAbs; omega

theorem timeAbs_day (d : Date) : d.timeAbs / 86400 + 1 = d.ordinal := by
  rw [timeAbs_eq_ordinal]; omega

theorem timeCivil_eq (d : Date) : d.timeCivil = civil d.ordinal := by
  unfold Date.timeCivil; rw [timeAbs_day]

theorem timeCivil_proper {d : Date} (h : Proper d) : d.timeCivil = (d.yearOf, d.monthOf, (d.dayOf : Int)) := by
  rw [timeCivil_eq, ordinal_proper h]
  have hv := h.1
  rw [civil_ordinal hv]
  rfl

theorem accessors_new {y : Int} {m : Nat} {d : Int} (hv : ValidDate y m d)
    (hy : -2147483648 ≤ y ∧ y < 2147483648) :
    (new y m d).yearOf = y ∧ (new y m d).monthOf = m ∧ ((new y m d).dayOf : Int) = d := by
  have h := date_new_valid hv hy
  rw [← accessors_eq_date] at h
  have h1 : (new y m d).yearOf = y := congrArg Prod.fst h
  have h2 : (new y m d).monthOf = m := congrArg (fun p => p.2.1) h
  have h3 : (new y m d).dayOf = d.toNat := congrArg (fun p => p.2.2) h
  refine ⟨h1, h2, ?_⟩
  rw [h3]
  have := hv.2.2.1
  omega

theorem timeAbs_new {y : Int} {m : Nat} {d : Int} (hv : ValidDate y m d)
    (hy : -2147483647 ≤ y ∧ y < 2147483648) :
    (new y m d).timeAbs = (ordinal y m d - 1) * 86400 := by
  have hp := proper_new hv hy
  rw [timeAbs_eq_ordinal, ordinal_proper hp, date_new_valid hv ⟨by omega, hy.2⟩]
  have := hv.2.2.1
  have e : ((d.toNat : Nat) : Int) = d := by omega
  simp only [e]

/-- a proper stored date is determined by what it reads back as -/
theorem eq_of_date_eq {d e : Date} (hd : Proper d) (he : Proper e) (h : d.date = e.date) : d = e := by
  rw [date_proper hd, date_proper he] at h
  obtain ⟨y1, m1, d1⟩ := d
  obtain ⟨y2, m2, d2⟩ := e
  simp only [Prod.mk.injEq] at h
  obtain ⟨h1, h2, h3⟩ := h
  congr 1 <;> omega

theorem ofCivil_civil_ordinal {d : Date} (h : Proper d) : ofCivil (civil d.ordinal) = d := by
  rw [ordinal_proper h, civil_ordinal h.1]
  have hv := h.1
  rw [ofCivil_valid hv, date_proper h]
  obtain ⟨_, h1, h2, h3, h4⟩ := h
  obtain ⟨y, m, dd⟩ := d
  simp only at *
  rw [wrap32_id (by omega)]
  congr 1 <;> omega

theorem fromTime_timeAbs {d : Date} (h : Proper d) : fromTime d.timeAbs 0 0 = d := by
  unfold fromTime
  split
  · rename_i h0
    have ho : d.ordinal = 1 := by have := timeAbs_eq_ordinal d; omega
    have := ofCivil_civil_ordinal h
    rw [ho] at this
    rw [← this]
    decide
  · have e : (d.timeAbs + 0) / 86400 + 1 = d.ordinal := by rw [Int.add_zero]; exact timeAbs_day d
    rw [e]
    exact ofCivil_civil_ordinal h

theorem before_iff_time {d e : Date} (hd : Proper d) (he : Proper e) :
    d.before e = true ↔ d.timeAbs < e.timeAbs := by
  rw [before_iff hd he, timeAbs_eq_ordinal, timeAbs_eq_ordinal]; omega
end U.Date

namespace U.Extra
open U

theorem orDefault_ok {V} (F D : Fmt V) (v : V) (f : Nat) (b : Bytes) (h : F [] v f = .ok b) :
    orDefault F D v f = b := by unfold orDefault; rw [h]

theorem orDefault_err {V} (F D : Fmt V) (v : V) (f t : Nat) (b : Bytes) (h : F [] v f = .err t)
    (hd : D [] v f = .ok b) : orDefault F D v f = b := by unfold orDefault; rw [h]; simp only; rw [hd]

theorem orDefault_self {V} (D : Fmt V) (v : V) (f : Nat) (b : Bytes) (hd : D [] v f = .ok b) :
    orDefault D D v f = b := by unfold orDefault; rw [hd]

theorem toRes_err_iff (o : FOut) (t : Nat) : o.toRes = .err t ↔ o = .err t := by
  cases o <;> simp [FOut.toRes]

theorem toRes_ok_iff (o : FOut) (b : Bytes) : o.toRes = .ok b ↔ o = .ok b := by
  cases o <;> simp [FOut.toRes]

theorem toRes_ne_panic (o : FOut) : o.toRes ≠ .panic := by
  cases o <;> simp [FOut.toRes]

theorem assign_ok {V} (r v : V) : assign r (.ok v) = (v, .ok) := rfl
theorem assign_err {V} (r : V) (e : XErr) : assign r (POut.err e) = (r, .err e) := rfl
theorem assign_panic {V} (r : V) : assign r (POut.panic : POut V) = (r, .panic) := rfl

theorem assign_changes_only_on_ok {V} (r : V) (o : POut V) :
    (assign r o).2 = .ok ∨ (assign r o).1 = r := by
  cases o <;> simp [assign]

theorem assign_ok_iff {V} (r : V) (o : POut V) : (assign r o).2 = .ok ↔ ∃ v, o = .ok v := by
  cases o <;> simp [assign]

/-- translation of the result of a call under the default parser into the vocabulary of `Model/Hist.lean` -/
def PRes.toHist : PRes → Hist.Res
  | .ok => .ok | .err (.lib e) => .err e | .err (.custom _) => .unsupported | .panic => .panic

theorem keep_eq_assign {V} (r : V) (mk : V → Hist.Recv) (o : Outcome V) :
    Hist.keep (mk r) mk o = (mk (assign r (POut.ofOutcome o)).1, (assign r (POut.ofOutcome o)).2.toHist) := by
  cases o <;> rfl

end U.Extra

namespace U.Constraint

/-- on integers the exact comparison of constants is `≤` -/
theorem NumVal.le_int (a b : Int) : NumVal.le (.int a) (.int b) = decide (a ≤ b) := by
  simp [NumVal.le, NumVal.exp, NumVal.scaled, NumVal.mant]

end U.Constraint
