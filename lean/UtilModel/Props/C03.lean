import UtilModel.Lemmas.SemText
/-!
# C03 — SemVer text is accepted exactly per the 2.0.0 grammar and round-trips

`Sem.unmarshalText maxLen allowVersion allowTag s` models `unmarshalText(funcName, input, f)` with
`MaxInputLength = maxLen`, `allowVersion = (f & formVersion != 0)`, `allowTag = (f & formTag != 0)`;
`Sem.parseEntry` are the public functions. The grammar is `Spec/SemVerBNF.lean`:
`Parts t ma mi pa pre? build?` says that `t` is `ma.mi.pa[-pre][+build]` with the parts in the
published BNF classes, `SemVer t` that such parts exist, `body s` is `s` without a leading `v`.

Formulation of the number bound: through the BNF witnesses — "there are parts of `body s` whose three
number texts have `val < 2^64`". Because the decomposition of a text is unique (`parts_unique`) this is
the same as "the parts have …", and `fields_of_parts` gives the result for every decomposition.

The "zero result" of a refusal is not a model statement: an `Outcome` carries either a value or an
error class, and the Go `Ver{}` returned next to the error is compared by the correspondence run.
-/
namespace U.Props.C03
open U U.Sem

/-! ## the scanner is the grammar -/

/-- **`shape` returns exactly the parts of a grammar text** (an absent optional group as the empty text) -/
theorem shape_iff (s ma mi pa pre build : Bytes) :
    shape s = some (ma, mi, pa, pre, build) ↔
      ∃ pre? build?, Parts s ma mi pa pre? build? ∧ pre = pre?.getD [] ∧ build = build?.getD [] := by
  constructor
  · exact parts_of_shape
  · rintro ⟨pre?, build?, hp, rfl, rfl⟩
    exact shape_of_parts hp

/-- … and nothing exactly outside the grammar -/
theorem shape_none_iff (s : Bytes) : shape s = none ↔ ¬ SemVer s := Sem.shape_none_iff s

/-- a text of the grammar has exactly one decomposition -/
theorem parts_unique (s ma mi pa ma' mi' pa' : Bytes) (pre? build? pre?' build?' : Option Bytes)
    (h : Parts s ma mi pa pre? build?) (h' : Parts s ma' mi' pa' pre?' build?') :
    ma = ma' ∧ mi = mi' ∧ pa = pa' ∧ pre? = pre?' ∧ build? = build?' := Sem.parts_unique h h'

/-- the optional parts are never empty texts; the identifier lists are the model's validity checks -/
theorem pre_build_iff (p b : Bytes) :
    (validPre p = true ↔ DotList PreId p) ∧ (validBuild b = true ↔ DotList BuildId b) ∧
    (DotList PreId p → p ≠ []) ∧ (DotList BuildId b → b ≠ []) :=
  ⟨validPre_iff p, validBuild_iff b, fun h => (dotList_build (dotList_pre_build h)).1, fun h => (dotList_build h).1⟩

/-- the joining function of the specification is the library's `intercalate` -/
theorem joinDots_intercalate (ids : List Bytes) : joinDots ids = List.intercalate [46] ids :=
  joinDots_eq_intercalate ids

/-! ## acceptance -/

/-- **acceptance is exactly**: non-empty, within the limit, the form (`v` or not) allowed, the body a
text of the grammar, and its three numbers below 2^64. -/
theorem accepts_iff (maxLen : Nat) (allowVersion allowTag : Bool) (s : Bytes) :
    (∃ v, unmarshalText maxLen allowVersion allowTag s = .ok v) ↔
      s ≠ [] ∧ (maxLen = 0 ∨ s.length ≤ maxLen) ∧
      (if s.head? = some 118 then allowTag else allowVersion) = true ∧
      ∃ ma mi pa pre? build?, Parts (body s) ma mi pa pre? build? ∧
        val ma < two64 ∧ val mi < two64 ∧ val pa < two64 := by
  constructor
  · rintro ⟨v, h⟩
    obtain ⟨h0, hl, hf, hb⟩ := (unmarshalText_ok_iff ..).mp h
    obtain ⟨ma, mi, pa, pre?, build?, hp, h1, h2, h3, _⟩ := (parseBody_ok_iff ..).mp hb
    exact ⟨h0, hl, hf, ma, mi, pa, pre?, build?, hp, h1, h2, h3⟩
  · rintro ⟨h0, hl, hf, ma, mi, pa, pre?, build?, hp, h1, h2, h3⟩
    exact ⟨_, (unmarshalText_ok_iff ..).mpr ⟨h0, hl, hf, (parseBody_ok_iff ..).mpr ⟨ma, mi, pa, pre?, build?, hp, h1, h2, h3, rfl⟩⟩⟩

/-- in particular nothing outside the grammar is accepted -/
theorem accepted_semver (maxLen : Nat) (allowVersion allowTag : Bool) (s : Bytes) (v : Ver)
    (h : unmarshalText maxLen allowVersion allowTag s = .ok v) : SemVer (body s) := by
  obtain ⟨_, _, _, ma, mi, pa, pre?, build?, hp, _⟩ := (accepts_iff maxLen allowVersion allowTag s).mp ⟨v, h⟩
  exact ⟨ma, mi, pa, pre?, build?, hp⟩

/-- **fields**: an accepted text yields the decimal values of its three number texts and the literal
pre-release and build texts (empty when absent) … -/
theorem fields (maxLen : Nat) (allowVersion allowTag : Bool) (s : Bytes) (v : Ver)
    (h : unmarshalText maxLen allowVersion allowTag s = .ok v) :
    ∃ ma mi pa pre? build?, Parts (body s) ma mi pa pre? build? ∧
      v.major = val ma ∧ v.minor = val mi ∧ v.patch = val pa ∧
      v.pre = pre?.getD [] ∧ v.build = build?.getD [] ∧
      v.major < two64 ∧ v.minor < two64 ∧ v.patch < two64 := by
  obtain ⟨_, _, _, hb⟩ := (unmarshalText_ok_iff ..).mp h
  obtain ⟨ma, mi, pa, pre?, build?, hp, h1, h2, h3, rfl⟩ := (parseBody_ok_iff ..).mp hb
  exact ⟨ma, mi, pa, pre?, build?, hp, rfl, rfl, rfl, rfl, rfl, h1, h2, h3⟩

/-- … whichever way the body is read as a text of the grammar -/
theorem fields_of_parts (maxLen : Nat) (allowVersion allowTag : Bool) (s : Bytes) (v : Ver)
    (ma mi pa : Bytes) (pre? build? : Option Bytes)
    (h : unmarshalText maxLen allowVersion allowTag s = .ok v) (hp : Parts (body s) ma mi pa pre? build?) :
    v = ⟨val ma, val mi, val pa, pre?.getD [], build?.getD []⟩ := by
  obtain ⟨_, _, _, hb⟩ := (unmarshalText_ok_iff ..).mp h
  obtain ⟨ma', mi', pa', pre?', build?', hp', _, _, _, rfl⟩ := (parseBody_ok_iff ..).mp hb
  obtain ⟨rfl, rfl, rfl, rfl, rfl⟩ := Sem.parts_unique hp hp'
  rfl

/-- **reproduce**: formatting the result (as a tag exactly when the input had the `v`) gives the input
back byte for byte. -/
theorem reproduce (maxLen : Nat) (allowVersion allowTag : Bool) (s : Bytes) (v : Ver)
    (h : unmarshalText maxLen allowVersion allowTag s = .ok v) :
    format [] v (decide (s.head? = some 118)) = s := by
  obtain ⟨_, _, _, hb⟩ := (unmarshalText_ok_iff ..).mp h
  obtain ⟨ma, mi, pa, pre?, build?, hp, _, _, _, rfl⟩ := (parseBody_ok_iff ..).mp hb
  rw [format_of_parts hp]
  simp only [decide_eq_true_eq]
  exact tag_body s

/-- the decimal writer and reader are inverse on numeric identifiers / on numbers -/
theorem dec_val_numId (t : Bytes) (n : Nat) : (NumId t → dec (val t) = t) ∧ NumId (dec n) ∧ val (dec n) = n :=
  ⟨dec_val, numId_dec n, val_dec n⟩

/-! ## refusals, in the order the code checks them -/

/-- empty input is invalid … -/
theorem empty_invalid (maxLen : Nat) (allowVersion allowTag : Bool) :
    unmarshalText maxLen allowVersion allowTag [] = .err .invalid := by
  simp [unmarshalText]

/-- … over-long input (limit non-zero) is refused with the dedicated error before anything else … -/
theorem too_long (maxLen : Nat) (allowVersion allowTag : Bool) (s : Bytes) (h0 : maxLen ≠ 0)
    (h : s.length > maxLen) : unmarshalText maxLen allowVersion allowTag s = .err .tooLong := by
  rw [unmarshalText_eq, if_neg (by intro e; subst e; simp at h), if_pos ⟨h0, h⟩]

/-- … a `v` prefix when tags are not allowed … -/
theorem tag_not_allowed (maxLen : Nat) (allowVersion : Bool) (s : Bytes)
    (hl : maxLen = 0 ∨ s.length ≤ maxLen) (hv : s.head? = some 118) :
    unmarshalText maxLen allowVersion false s = .err .tagNotAllowed := by
  rw [unmarshalText_eq, if_neg (by intro e; subst e; simp at hv), if_neg (by omega), if_pos hv]
  simp

/-- … no `v` prefix when only tags are allowed … -/
theorem expected_tag (maxLen : Nat) (allowTag : Bool) (s : Bytes) (h0 : s ≠ [])
    (hl : maxLen = 0 ∨ s.length ≤ maxLen) (hv : s.head? ≠ some 118) :
    unmarshalText maxLen false allowTag s = .err .expectedTag := by
  rw [unmarshalText_eq, if_neg h0, if_neg (by omega), if_neg hv]
  simp

/-- … **a grammar text whose first too-large number is the major / minor / patch one** is refused with
exactly that component's error … -/
theorem overflow_typed (maxLen : Nat) (allowVersion allowTag : Bool) (s ma mi pa : Bytes)
    (pre? build? : Option Bytes) (h0 : s ≠ []) (hl : maxLen = 0 ∨ s.length ≤ maxLen)
    (hf : (if s.head? = some 118 then allowTag else allowVersion) = true)
    (hp : Parts (body s) ma mi pa pre? build?) :
    (two64 ≤ val ma → unmarshalText maxLen allowVersion allowTag s = .err .invalidMajor) ∧
    (val ma < two64 → two64 ≤ val mi → unmarshalText maxLen allowVersion allowTag s = .err .invalidMinor) ∧
    (val ma < two64 → val mi < two64 → two64 ≤ val pa →
      unmarshalText maxLen allowVersion allowTag s = .err .invalidPatch) := by
  have e : unmarshalText maxLen allowVersion allowTag s = parseBody (body s) := by
    rw [unmarshalText_eq, if_neg h0, if_neg (by omega)]
    by_cases hv : s.head? = some 118
    · rw [if_pos hv] at hf; rw [if_pos hv, if_pos hf]
    · rw [if_neg hv] at hf; rw [if_neg hv, if_pos hf]
  rw [e, parseBody_parts hp]
  refine ⟨fun h => ?_, fun h1 h => ?_, fun h1 h2 h => ?_⟩
  · rw [if_pos h]
  · rw [if_neg (by omega), if_pos h]
  · rw [if_neg (by omega), if_neg (by omega), if_pos h]

/-- … and **the plain "invalid" error means exactly**: empty, or (within the limit, form allowed) a body
outside the grammar. So every refusal not named above is this one. -/
theorem invalid_iff (maxLen : Nat) (allowVersion allowTag : Bool) (s : Bytes) :
    unmarshalText maxLen allowVersion allowTag s = .err .invalid ↔
      s = [] ∨ ((maxLen = 0 ∨ s.length ≤ maxLen) ∧
        (if s.head? = some 118 then allowTag else allowVersion) = true ∧ ¬ SemVer (body s)) := by
  rw [unmarshalText_eq]
  by_cases h0 : s = []
  · simp [h0]
  · rw [if_neg h0]
    by_cases hl : maxLen ≠ 0 ∧ s.length > maxLen
    · rw [if_pos hl]
      constructor
      · intro h; cases h
      · rintro (h | ⟨h, _⟩)
        · exact absurd h h0
        · omega
    · rw [if_neg hl]
      have hl' : maxLen = 0 ∨ s.length ≤ maxLen := by omega
      by_cases hv : s.head? = some 118
      · rw [if_pos hv, if_pos hv]
        cases allowTag
        · simp [h0]
        · simp [h0, hl', parseBody_invalid_iff]
      · rw [if_neg hv, if_neg hv]
        cases allowVersion
        · simp [h0]
        · simp [h0, hl', parseBody_invalid_iff]

/-- every refusal carries one of the seven documented classes -/
theorem error_classes (maxLen : Nat) (allowVersion allowTag : Bool) (s : Bytes) (e : Err)
    (h : unmarshalText maxLen allowVersion allowTag s = .err e) :
    e = .invalid ∨ e = .tooLong ∨ e = .tagNotAllowed ∨ e = .expectedTag ∨
    e = .invalidMajor ∨ e = .invalidMinor ∨ e = .invalidPatch := by
  rw [unmarshalText_eq] at h
  repeat' split at h
  all_goals first
    | (simp only [Outcome.err.injEq] at h; subst h; simp)
    | (rcases parseBody_err h with h' | h' | h' | h' <;> simp [h'])

/-- the parser never panics -/
theorem never_panic (maxLen : Nat) (allowVersion allowTag : Bool) (s : Bytes) :
    unmarshalText maxLen allowVersion allowTag s ≠ .panic := by
  rw [unmarshalText_eq]
  repeat' split
  all_goals first
    | exact parseBody_ne_panic _
    | simp

/-! ## the public functions -/

/-- **entry points**: `Parse`, `ParseVersion`, `ParseTag`, `DefaultParser(_, 0)` and
`DefaultParser(_, RuleDisableTag)` are `unmarshalText` with (version, tag) allowed =
(✓,✓), (✓,✗), (✗,✓), (✓,✓), (✓,✗): the `v` is optional, forbidden, required, optional, forbidden. -/
theorem entry_points (maxLen : Nat) (s : Bytes) :
    parseEntry maxLen .parse s = unmarshalText maxLen true true s ∧
    parseEntry maxLen .parseVersion s = unmarshalText maxLen true false s ∧
    parseEntry maxLen .parseTag s = unmarshalText maxLen false true s ∧
    parseEntry maxLen .default s = unmarshalText maxLen true true s ∧
    parseEntry maxLen .defaultNoTag s = unmarshalText maxLen true false s :=
  ⟨rfl, rfl, rfl, rfl, rfl⟩

/-- the constants of the Go source behind those pairs: the prefix byte is `v`; the two form bits are
different single bits, so `formVersion|formTag`, `formVersion`, `formTag` test as the pairs above; the
rule bit `RuleDisableTag` is what removes `formTag` in `DefaultParser`; the default limit is 1024. -/
theorem entry_constants :
    Gen.sem_tagPrefix = 118 ∧
    ((Gen.sem_formVersion ||| Gen.sem_formTag) &&& Gen.sem_formVersion ≠ 0) ∧
    ((Gen.sem_formVersion ||| Gen.sem_formTag) &&& Gen.sem_formTag ≠ 0) ∧
    (Gen.sem_formVersion &&& Gen.sem_formVersion ≠ 0) ∧ (Gen.sem_formVersion &&& Gen.sem_formTag = 0) ∧
    (Gen.sem_formTag &&& Gen.sem_formVersion = 0) ∧ (Gen.sem_formTag &&& Gen.sem_formTag ≠ 0) ∧
    (0 &&& Gen.sem_RuleDisableTag = 0) ∧ (Gen.sem_RuleDisableTag &&& Gen.sem_RuleDisableTag ≠ 0) ∧
    Gen.sem_MaxInputLength = 1024 := by
  decide

/-! ## validity is parsing back -/

/-- **a version value is valid exactly when its formatted text parses back to it** (as a plain version;
numbers in the `uint64` range; the text within the input limit — see the remark below). -/
theorem valid_iff_roundtrip (maxLen : Nat) (v : Ver)
    (hr : v.major < two64 ∧ v.minor < two64 ∧ v.patch < two64)
    (hl : maxLen = 0 ∨ (format [] v false).length ≤ maxLen) :
    v.valid = .ok () ↔ unmarshalText maxLen true false (format [] v false) = .ok v := by
  obtain ⟨c, t, hs, hc⟩ := format_head v
  have hbody : body (format [] v false) = format [] v false := by
    rw [hs, body_cons, if_neg hc]
  have hhead : ¬ (format [] v false).head? = some 118 := by
    rw [hs]; simpa using hc
  rw [valid_ok_iff, unmarshalText_ok_iff, hbody, parseBody_ok_iff]
  constructor
  · rintro ⟨hp, hb⟩
    refine ⟨by rw [hs]; simp, hl, by rw [if_neg hhead], ?_⟩
    refine ⟨_, _, _, _, _, parts_format v hp hb, ?_, ?_, ?_, ?_⟩
    · rw [val_dec]; exact hr.1
    · rw [val_dec]; exact hr.2.1
    · rw [val_dec]; exact hr.2.2
    · rw [val_dec, val_dec, val_dec, getD_ite, getD_ite]
  · rintro ⟨_, _, _, ma, mi, pa, pre?, build?, hp, _, _, _, hv⟩
    have hpre : v.pre = pre?.getD [] := by rw [hv]
    have hbuild : v.build = build?.getD [] := by rw [hv]
    constructor
    · intro hne
      cases pre? with
      | none => exact absurd hpre hne
      | some p => rw [hpre]; exact hp.2.2.2.1 p rfl
    · intro hne
      cases build? with
      | none => exact absurd hbuild hne
      | some b => rw [hbuild]; exact hp.2.2.2.2.1 b rfl

/-! Remark (the length hypothesis is forced): `Ver.valid` does not look at `MaxInputLength`, the
parser does. A valid value whose text is longer than the limit — e.g. a 2,000-byte build string under
the default limit 1024 — does not parse back; it is refused as too long: -/
example (v : Ver) (h : (format [] v false).length > Gen.sem_MaxInputLength) :
    unmarshalText Gen.sem_MaxInputLength true false (format [] v false) = .err .tooLong :=
  too_long _ _ _ _ (by decide) h
/-- the same with a limit of 8 bytes: `1.2.3+abcd` is valid and does not parse back -/
example : (⟨1, 2, 3, [], [97, 98, 99, 100]⟩ : Ver).valid = .ok () ∧
    unmarshalText 8 true false (format [] ⟨1, 2, 3, [], [97, 98, 99, 100]⟩ false) = .err .tooLong := by decide
/-- `Ver.valid` ignores empty fields and `format` omits them: `1.2.3` -/
example : (⟨1, 2, 3, [], []⟩ : Ver).valid = .ok () ∧ format [] ⟨1, 2, 3, [], []⟩ false = [49, 46, 50, 46, 51] := by
  decide
/-- an invalid value does not parse back: pre-release `01` -/
example : (⟨1, 0, 0, [48, 49], []⟩ : Ver).valid = .err .invalidPreRelease ∧
    unmarshalText 0 true false (format [] ⟨1, 0, 0, [48, 49], []⟩ false) = .err .invalid := by decide

/-! ## non-vacuity -/

-- `v1.2.3-a.1+b` under `Parse`
example : parseEntry 1024 .parse [118, 49, 46, 50, 46, 51, 45, 97, 46, 49, 43, 98] =
    .ok ⟨1, 2, 3, [97, 46, 49], [98]⟩ := by decide
-- the same text is a tag: refused by `ParseVersion`, accepted by `ParseTag`; `1.2.3` the other way round
example : parseEntry 1024 .parseVersion [118, 49, 46, 50, 46, 51] = .err .tagNotAllowed := by decide
example : parseEntry 1024 .parseTag [118, 49, 46, 50, 46, 51] = .ok ⟨1, 2, 3, [], []⟩ := by decide
example : parseEntry 1024 .parseTag [49, 46, 50, 46, 51] = .err .expectedTag := by decide
-- `1.02.3`, `1.0.0-01` rejected; `1.0.0-0a` accepted
example : parseEntry 1024 .parse [49, 46, 48, 50, 46, 51] = .err .invalid := by decide
example : parseEntry 1024 .parse [49, 46, 48, 46, 48, 45, 48, 49] = .err .invalid := by decide
example : parseEntry 1024 .parse [49, 46, 48, 46, 48, 45, 48, 97] = .ok ⟨1, 0, 0, [48, 97], []⟩ := by decide
-- `18446744073709551616.0.0` ⇒ invalidMajor, `18446744073709551615.0.0` accepted
example : parseEntry 1024 .parse
    [49, 56, 52, 52, 54, 55, 52, 52, 48, 55, 51, 55, 48, 57, 53, 53, 49, 54, 49, 54, 46, 48, 46, 48] =
    .err .invalidMajor := by decide
example : parseEntry 1024 .parse
    [49, 56, 52, 52, 54, 55, 52, 52, 48, 55, 51, 55, 48, 57, 53, 53, 49, 54, 49, 53, 46, 48, 46, 48] =
    .ok ⟨18446744073709551615, 0, 0, [], []⟩ := by decide
example : parseEntry 1024 .parse
    [48, 46, 49, 56, 52, 52, 54, 55, 52, 52, 48, 55, 51, 55, 48, 57, 53, 53, 49, 54, 49, 54, 46, 48] =
    .err .invalidMinor := by decide
-- the specification itself is inhabited and refuses: `1.2.3-a.1+b` is in the grammar, `1.02.3` is not
example : Parts [49, 46, 50, 46, 51, 45, 97, 46, 49, 43, 98] [49] [50] [51] (some [97, 46, 49]) (some [98]) := by
  refine ⟨Or.inr ⟨49, [], rfl, by unfold PosDigit; omega, by simp⟩, Or.inr ⟨50, [], rfl, by unfold PosDigit; omega, by simp⟩,
    Or.inr ⟨51, [], rfl, by unfold PosDigit; omega, by simp⟩, ?_, ?_, rfl⟩
  · intro p hp; cases hp; exact (validPre_iff _).mp (by decide)
  · intro b hb; cases hb; exact (validBuild_iff _).mp (by decide)
example : ¬ SemVer [49, 46, 48, 50, 46, 51] := (shape_none_iff _).mp (by decide)
-- reproduce on the first example
example : format [] ⟨1, 2, 3, [97, 46, 49], [98]⟩ true = [118, 49, 46, 50, 46, 51, 45, 97, 46, 49, 43, 98] := by
  decide

/-- **secondary text paths**: `MarshalText`, `String`, `%s`, `%v` give the plain text, `StringTag` and `%t` the
tag form (flag constant and verb switch generated from the source) -/
theorem paths_agree (v : Ver) :
    marshalText v = format [] v false ∧ Sem.toString v = format [] v false ∧ stringTag v = format [] v true ∧
    formatVerb v 115 = format [] v false ∧ formatVerb v 118 = format [] v false ∧ formatVerb v 116 = format [] v true := by
  have e0 : isTag 0 = false := by decide
  have e1 : isTag Gen.sem_FormatTag = true := by decide
  have es : isTag (flagsByVerb 115) = false := by decide
  have ev : isTag (flagsByVerb 118) = false := by decide
  have et : isTag (flagsByVerb 116) = true := by decide
  simp only [marshalText, Sem.toString, stringTag, formatVerb, e0, e1, es, ev, et, and_self]

end U.Props.C03
