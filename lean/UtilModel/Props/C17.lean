import UtilModel.Model.Hist
import UtilModel.Gen.Facts
/-!
# C17 — Failed parses leave receiver and input untouched; string and bytes agree

The model of a receiver under a history of UnmarshalText / UnmarshalJSON / UnmarshalBinary / Scan
calls (`Model/Hist.lean`, package globals at their generated defaults). `Date.UnmarshalBinary` is
modelled statement by statement: all checks (F4) precede the three field assignments. The real
receiver is compared with the model after **every** call of every generated history by the
correspondence run. Not expressible in a pure model and therefore checked on the implementation
only: input buffers are neither modified nor retained (snapshot / scribble), and the `string`,
`[]byte` and named-type instantiations of every generic entry point agree in value and message (the
model has a single function for all of them).
-/
namespace U.Props.C17
open U U.Hist

/-- **a call that does not succeed leaves the receiver exactly as it was** — for every receiver type,
every kind of call and every input -/
theorem failed_step_keeps_state (r : Recv) (op : HOp) (h : (step r op).2 ≠ .ok) : (step r op).1 = r := by
  unfold step at h ⊢
  cases r <;> cases op <;> simp only at h ⊢
  all_goals first
    | rfl
    | (unfold keep at h ⊢; split <;> simp_all)
    | (unfold dateUnmarshalBinary at h ⊢; split <;> simp_all)
    | simp_all

/-- … including a value decoded by an earlier successful call: a failing call anywhere in a history
can be deleted without changing the receiver at any later point -/
theorem failed_call_is_invisible (r : Recv) (a b : List HOp) (op : HOp)
    (h : (step (final r a) op).2 ≠ .ok) : final r (a ++ [op] ++ b) = final r (a ++ b) := by
  unfold final at *
  simp only [List.foldl_append, List.foldl_cons, List.foldl_nil]
  rw [failed_step_keeps_state _ _ h]

/-- the receiver after a history is the value stored by its last successful call (or the initial value) -/
theorem final_snoc (r : Recv) (ops : List HOp) (op : HOp) :
    final r (ops ++ [op]) = if (step (final r ops) op).2 = .ok then (step (final r ops) op).1 else final r ops := by
  unfold final
  simp only [List.foldl_append, List.foldl_cons, List.foldl_nil]
  split
  · rfl
  · rename_i h; exact failed_step_keeps_state _ _ h

/-- whether a call succeeds, and what it stores, does not depend on what the receiver held before -/
theorem step_independent_of_old_value (d d' : Date.Date) (op : HOp) :
    (step (.date d) op).2 = (step (.date d') op).2 ∧
    ((step (.date d) op).2 = .ok → (step (.date d) op).1 = (step (.date d') op).1) := by
  unfold step
  cases op <;> simp only
  · unfold keep; split <;> simp
  · simp
  · unfold dateUnmarshalBinary; split <;> simp
  · simp
  · simp

/-! non-vacuity: a success, then three different failures, then a success -/
example :
    (run (.date Date.zero) [.text [50,48,50,52,45,48,50,45,50,57], .text [120], .binary [1,0,0,7,230,13,32], .scanOther,
                            .binary [1,0,0,7,230,12,31]]).map (·.2)
      = [.ok, .err .invalid, .err .invalidDate, .err .invalidType, .ok] := by decide
example :
    final (.date Date.zero) [.text [50,48,50,52,45,48,50,45,50,57], .text [120], .binary [1,0,0,7,230,13,32]]
      = .date (Date.new 2024 2 29) := by decide

/-- **structure facts extracted from the source on this run**: in every `Unmarshal*` method the assignments
through the receiver are top-level statements that come after every check (no `if`, no error return
follows the first of them) — so a call that returns an error has not touched the receiver -/
theorem receiver_assign_facts :
    Gen.date_Date_UnmarshalBinary_assignsAfterChecks = true ∧ Gen.date_Date_UnmarshalText_assignsAfterChecks = true ∧
    Gen.roman_Number_UnmarshalText_assignsAfterChecks = true ∧ Gen.sem_Ver_UnmarshalText_assignsAfterChecks = true ∧
    Gen.size_Size_UnmarshalText_assignsAfterChecks = true ∧ Gen.size_Size_UnmarshalJSON_assignsAfterChecks = true ∧
    Gen.uu_ID_UnmarshalText_assignsAfterChecks = true := by decide

end U.Props.C17
