import UtilModel.Lemmas.SemSpec
import UtilModel.Props.C14
/-!
# C06 — Version precedence follows SemVer 2.0.0 section 11

`Spec/SemVerOrder.lean` states §11 (`specCmp`, `specPre`, `specIdents`, `specIdent`) and the one
excluded region (`Excluded`). The comparator model (after fix F5) equals the specification on
**all** versions outside that region — validity of the fields is not even needed.
-/
namespace U.Props.C06
open U U.Sem

/-- **pre-release precedence** is §11.3/11.4 outside the excluded region -/
theorem comparePre_is_spec (a b : Bytes) (h : Excluded a b = false) : comparePre a b = specPre a b :=
  comparePre_spec a b h

/-- **version precedence** is §11 outside the excluded region: numeric major, minor, patch; a release
above its pre-releases; identifiers left to right (numeric by value and below alphanumeric,
alphanumeric in ASCII order, longer list above its prefix); build metadata ignored. -/
theorem compare_is_spec (v w : Ver) (h : Excluded v.pre w.pre = false) : v.compare w = specCmp v w := by
  unfold Ver.compare specCmp cmpNat
  simp only [gt_iff_lt, ne_eq]
  repeat' split
  all_goals first | rfl | omega | exact comparePre_spec _ _ h

/-- the excluded region is what the property says on valid versions: in valid pre-releases two
identifiers that differ as text never have equal precedence, so `Excluded` looks at the first pair
of differing identifiers only -/
theorem differing_valid_identifiers_differ (a b : Bytes) (ha : isPreIdent a = true) (hb : isPreIdent b = true)
    (hab : a ≠ b) : specIdent a b ≠ 0 :=
  specIdent_ne_zero_of_valid a b ha hb hab

/-- the proper-prefix case is *not* excluded: `a` vs `a1`, `a1` vs `a10` follow §11 -/
example : Excluded [97] [97, 49] = false ∧ comparePre [97] [97, 49] = -1 := by decide
example : Excluded [97, 49] [97, 49, 48] = false ∧ comparePre [97, 49] [97, 49, 48] = -1 := by decide
/-- the excluded pairs -/
example : Excluded [97, 48, 49] [97, 49] = true ∧ Excluded [97, 50] [97, 49, 49] = true := by decide

/-- **all entry points agree**: the string helpers and latest-of-two are `parse` then the value method
(C14.helpers_compare / helpers_latest), and `latest` picks by `compare` -/
theorem entry_points_agree (maxLen : Nat) (e : Entry) (a b : Bytes) (av bv : Ver)
    (ha : parseEntry maxLen e a = .ok av) (hb : parseEntry maxLen e b = .ok bv) :
    compareStr maxLen e a b = .ok (av.compare bv) ∧ latestStr maxLen e a b = .ok (av.latest bv) ∧
    av.latest bv = (if av.compare bv = -1 then bv else av) := by
  rw [C14.helpers_compare, C14.helpers_latest, ha, hb]
  exact ⟨rfl, rfl, rfl⟩

/-- the SemVer specification's own example chain
`alpha < alpha.1 < alpha.beta < beta < beta.2 < beta.11 < rc.1 < (release)`, in the specification … -/
def chain : List Bytes :=
  [[97,108,112,104,97], [97,108,112,104,97,46,49], [97,108,112,104,97,46,98,101,116,97], [98,101,116,97],
   [98,101,116,97,46,50], [98,101,116,97,46,49,49], [114,99,46,49], []]

def pairwise (f : Bytes → Bytes → Int) : List Bytes → Bool
  | a :: b :: t => f a b == -1 && f b a == 1 && pairwise f (b :: t)
  | _ => true

theorem spec_chain : pairwise specPre chain = true := by decide
/-- … and in the comparator model (none of these pairs is excluded) -/
theorem model_chain : pairwise comparePre chain = true := by decide

/-! the defect fix F5 removed: these were ordered the wrong way round by the shipped comparator -/
example : comparePre [98,101,116,97,46,50] [98,101,116,97,46,49,49] = -1 := by decide   -- beta.2 < beta.11
example : comparePre [50] [49, 97] = -1 := by decide                                      -- 2 < 1a
example : comparePre [97, 45, 98] [97, 46, 98] = 1 := by decide                           -- a-b > a.b

end U.Props.C06
