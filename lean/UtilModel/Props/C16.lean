import UtilModel.Model.Date
import UtilModel.Model.Roman
import UtilModel.Model.Sem
import UtilModel.Model.Size
import UtilModel.Model.UU
/-!
# C16 — Formatters append to the caller's buffer without disturbing it

For each of the five `DefaultFormatter` models: the result is the caller's bytes, unchanged, followed
by exactly what formatting into an empty buffer produces — for every value, flag set and prefix.
The model of `roman.DefaultFormatter` lower-cases only the appended numeral (fix F2); that the real
code treats the prefix the same way is what the correspondence run checks with prefixes made of the
very letters the formatter emits. In-place modification of the caller's backing array and spare
capacity are memory-level facts checked on the implementation only.
-/
namespace U.Props.C16
open U

theorem date_append (buf : Bytes) (d : Date.Date) (basic : Bool) :
    Date.format buf d basic = buf ++ Date.format [] d basic := by
  unfold Date.format
  cases basic <;> simp [List.append_assoc]

theorem roman_append (buf : Bytes) (n f : Nat) :
    Roman.format buf n f = buf ++ Roman.format [] n f := by
  unfold Roman.format
  split
  · simp
  · split <;> simp

theorem sem_append (buf : Bytes) (v : Sem.Ver) (tag : Bool) :
    Sem.format buf v tag = buf ++ Sem.format [] v tag := by
  unfold Sem.format
  cases tag <;> simp [List.append_assoc]

theorem size_append (buf : Bytes) (s f : Nat) :
    Size.format buf s f = buf ++ Size.format [] s f := by
  unfold Size.format
  simp [List.append_assoc]

theorem uu_append (buf : Bytes) (i : UU.ID) (urn : Bool) :
    UU.format buf i urn = buf ++ UU.format [] i urn := by
  unfold UU.format
  cases urn <;> simp [List.append_assoc]

/-- the URN rendering is the prefix `urn:uuid:` followed by the plain rendering -/
theorem urn_is_prefix_plus_plain (i : UU.ID) :
    i.urn = [117, 114, 110, 58, 117, 117, 105, 100, 58] ++ UU.format [] i false := by
  unfold UU.ID.urn
  rw [uu_append]
  rfl

/-- … and equals the formatter's own URN form -/
theorem urn_eq_format_urn (i : UU.ID) : i.urn = UU.format [] i true := by
  unfold UU.ID.urn
  rw [uu_append]
  unfold UU.format
  simp [List.append_assoc]

/-- the lower-case flag never reaches the caller's bytes: even a prefix made of numeral letters survives -/
example : Roman.format [77, 73, 88, 32] 4 64 = [77, 73, 88, 32, 105, 118] := by decide
example : Date.format [45, 48] (Date.new 2024 2 29) false = [45, 48, 50,48,50,52,45,48,50,45,50,57] := by decide

end U.Props.C16
