import UtilModel.Lemmas.SizeArith
/-!
# C08 — Size arithmetic is exact or refused, never wrapped

Specification (`UtilModel/Spec/SizeText.lean`): the multiplier table `mult`, `bigUnits`, the float
denotation `Denotes`, the text grammar `render`/`WellFormed`, `Representable`.
-/
namespace U.Props.C08
open U U.Size

/-! ## units -/

theorem units_are_powers (u : Bytes) : lookupUnit u = mult u := lookupUnit_eq_mult u

theorem zero_units (u : Bytes) :
    u ∈ Gen.size_zeroUnits ↔ u = [] ∨ u ∈ unitNames ∨ u ∈ bigUnits := zeroUnits_mem u

/-- the exported unit constants carry the multipliers of the property text -/
theorem unit_constants :
    mult Gen.size_Byte = some 1 ∧
    mult Gen.size_Kilobyte = some 1000 ∧ mult Gen.size_Megabyte = some (1000 ^ 2) ∧
    mult Gen.size_Gigabyte = some (1000 ^ 3) ∧ mult Gen.size_Terabyte = some (1000 ^ 4) ∧
    mult Gen.size_Petabyte = some (1000 ^ 5) ∧ mult Gen.size_Exabyte = some (1000 ^ 6) ∧
    mult Gen.size_Kibibyte = some 1024 ∧ mult Gen.size_Mebibyte = some (1024 ^ 2) ∧
    mult Gen.size_Gibibyte = some (1024 ^ 3) ∧ mult Gen.size_Tebibyte = some (1024 ^ 4) ∧
    mult Gen.size_Pebibyte = some (1024 ^ 5) ∧ mult Gen.size_Exbibyte = some (1024 ^ 6) ∧
    bigUnits = [Gen.size_Zettabyte, Gen.size_Yottabyte, Gen.size_Zebibyte, Gen.size_Yobibyte] := by
  decide

theorem unit_names (u : Bytes) : mult u ≠ none ↔ u ∈ unitNames := mult_ne_none_iff u

theorem newSize_exact (v : Nat) (u : Bytes) (z : Nat) :
    newSize v u = .ok z ↔
      (v = 0 ∧ z = 0 ∧ (u = [] ∨ mult u ≠ none ∨ u ∈ bigUnits)) ∨
      (0 < v ∧ ((u = [] ∧ z = v) ∨ (∃ m, mult u = some m ∧ z = v * m ∧ v * m < 2 ^ 64))) := by
  by_cases hv : v = 0
  · subst hv
    rw [newSize_zero]
    constructor
    · intro h
      split at h
      · rename_i hc
        exact .inl ⟨rfl, by simpa using h.symm, hc⟩
      · simp at h
    · rintro (⟨_, rfl, hc⟩ | ⟨h, _⟩)
      · rw [if_pos hc]
      · omega
  · have hpos : 0 < v := by omega
    rw [newSize_pos v u hpos]
    constructor
    · intro h
      refine .inr ⟨hpos, ?_⟩
      split at h
      · rename_i hu
        exact .inl ⟨hu, by simpa using h.symm⟩
      · split at h
        · simp at h
        · rename_i m hm
          split at h
          · rename_i hlt
            exact .inr ⟨m, hm, by simpa using h.symm, hlt⟩
          · simp at h
    · rintro (⟨h, _⟩ | ⟨_, ⟨hu, rfl⟩ | ⟨m, hm, rfl, hlt⟩⟩)
      · omega
      · rw [if_pos hu]
      · have hu : u ≠ [] := by
          intro hu; subst hu; simp [mult_nil] at hm
        rw [if_neg hu, hm]
        simp only
        rw [if_pos hlt]

/-- refusals: the error class says why -/
theorem newSize_refused (v : Nat) (u : Bytes) (e : Err) (h : newSize v u = .err e) :
    (e = .invalidUnit ∧
      ((u ≠ [] ∧ mult u = none ∧ u ∉ bigUnits) ∨ (u ∈ bigUnits ∧ v ≠ 0))) ∨
    (e = .invalidValue ∧ 0 < v ∧ ∃ m, mult u = some m ∧ 2 ^ 64 ≤ v * m) := by
  by_cases hv : v = 0
  · subst hv
    rw [newSize_zero] at h
    split at h
    · simp at h
    · rename_i hc
      simp only [not_or, Decidable.not_not] at hc
      refine .inl ⟨by simpa using h.symm, .inl ⟨hc.1, hc.2.1, hc.2.2⟩⟩
  · have hpos : 0 < v := by omega
    rw [newSize_pos v u hpos] at h
    split at h
    · simp at h
    · rename_i hu
      split at h
      · rename_i hm
        refine .inl ⟨by simpa using h.symm, ?_⟩
        by_cases hb : u ∈ bigUnits
        · exact .inr ⟨hb, hv⟩
        · exact .inl ⟨hu, hm, hb⟩
      · rename_i m hm
        split at h
        · simp at h
        · rename_i hge
          exact .inr ⟨by simpa using h.symm, hpos, m, hm, by omega⟩

/-- … and conversely: exactly these inputs are refused, with exactly these classes -/
theorem newSize_refused_iff (v : Nat) (u : Bytes) (e : Err) :
    newSize v u = .err e ↔
      ((e = .invalidUnit ∧
        ((u ≠ [] ∧ mult u = none ∧ u ∉ bigUnits) ∨ (u ∈ bigUnits ∧ v ≠ 0))) ∨
       (e = .invalidValue ∧ 0 < v ∧ ∃ m, mult u = some m ∧ 2 ^ 64 ≤ v * m)) := by
  refine ⟨newSize_refused v u e, ?_⟩
  rintro (⟨rfl, ⟨hu, hm, hb⟩ | ⟨hb, hv⟩⟩ | ⟨rfl, hpos, m, hm, hge⟩)
  · by_cases hv : v = 0
    · subst hv
      rw [newSize_zero, if_neg]
      simp only [not_or, Decidable.not_not]
      exact ⟨hu, hm, hb⟩
    · rw [newSize_pos v u (by omega), if_neg hu, hm]
  · have hu : u ≠ [] := by intro hu; subst hu; simp [bigUnits] at hb
    rw [newSize_pos v u (by omega), if_neg hu, mult_big u hb]
  · have hu : u ≠ [] := by intro hu; subst hu; simp [mult_nil] at hm
    rw [newSize_pos v u hpos, if_neg hu, hm]
    simp only
    rw [if_neg (by omega)]

theorem newSize_no_panic (v : Nat) (u : Bytes) : newSize v u ≠ .panic := by
  by_cases hv : v = 0
  · subst hv; rw [newSize_zero]; split <;> simp
  · rw [newSize_pos v u (by omega)]
    repeat' split
    all_goals simp

/-- an accepted result is below 2^64 whenever the number was -/
theorem newSize_never_wraps (v : Nat) (u : Bytes) (z : Nat) (hv : v < 2 ^ 64)
    (h : newSize v u = .ok z) : z < 2 ^ 64 := by
  rcases (newSize_exact v u z).mp h with ⟨_, rfl, _⟩ | ⟨_, ⟨_, rfl⟩ | ⟨m, _, rfl, hlt⟩⟩
  · exact Nat.pow_pos (by decide)
  · exact hv
  · exact hlt

/-! ## numeric arguments of `New[N]` -/

theorem finToNat_exact (m e : Int) (v : Nat) : finToNat m e = some v ↔ Denotes m e v :=
  finToNat_some m e v

/-- integers: negative refused, otherwise as `newSize`; NaN and the infinities refused -/
theorem newSizeNum_int_nan_inf (u : Bytes) :
    (∀ i : Int, i < 0 → newSizeNum (.int i) u = .err .invalidValue) ∧
    (∀ i : Int, 0 ≤ i → newSizeNum (.int i) u = newSize i.toNat u) ∧
    newSizeNum .nan u = .err .invalidValue ∧
    (∀ neg, newSizeNum (.inf neg) u = .err .invalidValue) := by
  refine ⟨fun i hi => ?_, fun i hi => ?_, rfl, fun _ => rfl⟩
  · simp only [newSizeNum]; rw [if_pos hi]
  · simp only [newSizeNum]; rw [if_neg (by omega)]

/-- a finite float that is exactly an integer `v` in range behaves like that integer -/
theorem newSizeNum_float_accepted (m e : Int) (v : Nat) (u : Bytes) (h : Denotes m e v) :
    newSizeNum (.fin m e) u = newSize v u := by
  simp only [newSizeNum]
  by_cases hm : m = 0
  · rw [if_pos hm]
    subst hm
    obtain ⟨_, _, ⟨_, hv⟩ | ⟨_, hv⟩⟩ := h
    · simp at hv; rw [hv]
    · have hd : 0 < 2 ^ (-e).toNat := Nat.pow_pos (by decide)
      simp only [Int.toNat_zero] at hv
      rcases Nat.mul_eq_zero.mp hv.symm with h0 | h0
      · rw [h0]
      · omega
  · rw [if_neg hm, (finToNat_some m e v).mpr h]

/-- every other finite float is refused as an invalid value: nothing is truncated or wrapped -/
theorem newSizeNum_float_refused (m e : Int) (u : Bytes) (hm : m ≠ 0) (h : ¬ ∃ v, Denotes m e v) :
    newSizeNum (.fin m e) u = .err .invalidValue := by
  simp only [newSizeNum]
  rw [if_neg hm]
  cases hf : finToNat m e with
  | none => rfl
  | some v => exact absurd ⟨v, (finToNat_some m e v).mp hf⟩ h

/-- in particular negative, fractional and too large floats -/
theorem newSizeNum_float_cases (m e : Int) (u : Bytes) :
    (m < 0 → newSizeNum (.fin m e) u = .err .invalidValue) ∧
    (0 < m → e < 0 → m.toNat % 2 ^ (-e).toNat ≠ 0 → newSizeNum (.fin m e) u = .err .invalidValue) ∧
    (0 < m → 0 ≤ e → 2 ^ 64 ≤ m.toNat * 2 ^ e.toNat → newSizeNum (.fin m e) u = .err .invalidValue) ∧
    (0 < m → e < 0 → 2 ^ 64 * 2 ^ (-e).toNat ≤ m.toNat → newSizeNum (.fin m e) u = .err .invalidValue) := by
  refine ⟨fun hm => ?_, fun hm he hf => ?_, fun hm he hb => ?_, fun hm he hb => ?_⟩
  · apply newSizeNum_float_refused m e u (by omega)
    rintro ⟨v, h0, _⟩; omega
  · apply newSizeNum_float_refused m e u (by omega)
    rintro ⟨v, _, _, ⟨h, _⟩ | ⟨_, h⟩⟩
    · omega
    · rw [h, Nat.mul_mod_left] at hf; exact hf rfl
  · apply newSizeNum_float_refused m e u (by omega)
    rintro ⟨v, _, hv, ⟨_, h⟩ | ⟨h, _⟩⟩
    · omega
    · omega
  · apply newSizeNum_float_refused m e u (by omega)
    rintro ⟨v, _, hv, ⟨h, _⟩ | ⟨_, h⟩⟩
    · omega
    · have hd : 0 < 2 ^ (-e).toNat := Nat.pow_pos (by decide)
      have := (Nat.mul_lt_mul_right hd).mpr hv
      omega

/-! ## text -/

/-- the scanner reads exactly the digits and the unit of a rendering -/
theorem prepareNumber_render (lead : Nat) (ds : List (Nat × List Sep)) (unit : Bytes) (trail : Nat)
    (h : WellFormed ds unit) :
    prepareNumber (render lead ds unit trail) [] = (digitsOf ds, unit) := pn_render lead ds unit trail h

/-- **completeness**: every rendering is read as digits × unit multiplier, or refused -/
theorem text_exact (du : Bool) (lead : Nat) (ds : List (Nat × List Sep)) (unit : Bytes) (trail : Nat)
    (h : WellFormed ds unit) :
    unmarshalText du (render lead ds unit trail) =
      if val (digitsOf ds) ≥ 2 ^ 64 then .err .numRange
      else if unit = [] then .ok (val (digitsOf ds))
      else if du then .err .unitDisabled
      else newSize (val (digitsOf ds)) unit :=
  unmarshalText_of_pn du _ _ _ (pn_render lead ds unit trail h) (digitsOf_ne_nil ds h.1)

/-- separators and surrounding spaces never change the outcome -/
theorem separators_irrelevant (du : Bool) (lead lead' trail trail' : Nat)
    (ds ds' : List (Nat × List Sep)) (unit : Bytes)
    (h : WellFormed ds unit) (h' : WellFormed ds' unit) (hd : digitsOf ds = digitsOf ds') :
    unmarshalText du (render lead ds unit trail) = unmarshalText du (render lead' ds' unit trail') := by
  rw [text_exact du lead ds unit trail h, text_exact du lead' ds' unit trail' h', hd]

/-- **soundness**: only renderings are accepted (indeed only renderings get past `.err .invalid`),
and the accepted value is the one `text_exact` gives -/
theorem text_sound (du : Bool) (s : Bytes) (z : Nat) (h : unmarshalText du s = .ok z) :
    ∃ lead ds unit trail, s = render lead ds unit trail ∧ WellFormed ds unit ∧
      val (digitsOf ds) < 2 ^ 64 ∧
      ((unit = [] ∧ z = val (digitsOf ds)) ∨
       (unit ≠ [] ∧ du = false ∧ newSize (val (digitsOf ds)) unit = .ok z)) := by
  by_cases hnum : (prepareNumber s []).1 = []
  · rw [unmarshalText_invalid du s hnum] at h
    simp at h
  · obtain ⟨lead, ds, trail, h1, h2, _⟩ := pn_sound s hnum
    refine ⟨lead, ds, (prepareNumber s []).2, trail, h1, h2, ?_⟩
    generalize (prepareNumber s []).2 = unit at h1 h2
    rw [h1, text_exact du lead ds unit trail h2] at h
    split at h
    · simp at h
    · rename_i hlt
      refine ⟨by omega, ?_⟩
      split at h
      · rename_i hu
        exact .inl ⟨hu, by simpa using h.symm⟩
      · rename_i hu
        split at h
        · simp at h
        · rename_i hdu
          exact .inr ⟨hu, by simpa using hdu, h⟩

/-- every text that is not a rendering is refused as `.invalid`, and no rendering is -/
theorem text_invalid_iff (du : Bool) (s : Bytes) :
    unmarshalText du s = .err .invalid ↔
      ¬ ∃ lead ds unit trail, s = render lead ds unit trail ∧ WellFormed ds unit := by
  constructor
  · rintro h ⟨lead, ds, unit, trail, rfl, hw⟩
    rw [text_exact du lead ds unit trail hw] at h
    split at h
    · simp at h
    · split at h
      · simp at h
      · split at h
        · simp at h
        · rcases newSize_refused _ _ _ h with ⟨h, _⟩ | ⟨h, _⟩ <;> simp at h
  · intro h
    by_cases hnum : (prepareNumber s []).1 = []
    · exact unmarshalText_invalid du s hnum
    · obtain ⟨lead, ds, trail, h1, h2, _⟩ := pn_sound s hnum
      exact absurd ⟨lead, ds, _, trail, h1, h2⟩ h

/-- no digit before the unit (or nothing at all) is `.invalid` -/
theorem text_no_digit (du : Bool) (s : Bytes)
    (h : ∀ c, (s.dropWhile (· == 32)).head? = some c → ¬ Digit c) :
    unmarshalText du s = .err .invalid :=
  unmarshalText_invalid du s (pn_nodigit s h)

/-! ## `Bytes[N]` -/

/-- the largest value of every integer kind -/
theorem kind_tables :
    Kind.int8.maxInt = 2 ^ 7 - 1 ∧ Kind.int16.maxInt = 2 ^ 15 - 1 ∧ Kind.int32.maxInt = 2 ^ 31 - 1 ∧
    Kind.int64.maxInt = 2 ^ 63 - 1 ∧ Kind.int.maxInt = 2 ^ 63 - 1 ∧
    Kind.uint8.maxInt = 2 ^ 8 - 1 ∧ Kind.uint16.maxInt = 2 ^ 16 - 1 ∧ Kind.uint32.maxInt = 2 ^ 32 - 1 ∧
    Kind.uint64.maxInt = 2 ^ 64 - 1 ∧ Kind.uint.maxInt = 2 ^ 64 - 1 := by decide

/-- integer kinds: success exactly when the value fits, and then the value itself -/
theorem bytes_exact_int (k : Kind) (hk : k ≠ .float32 ∧ k ≠ .float64) (s : Nat) :
    bytesAs k s = if s ≤ k.maxInt then (s, true) else (0, false) := bytesAs_int k hk s

/-- float kinds (`p` = 24 / 53 significand bits): success exactly when rounding to `p` bits does not
change the value, and then the value itself -/
theorem bytes_exact_float (k : Kind) (p : Nat)
    (hk : (k = .float32 ∧ p = 24) ∨ (k = .float64 ∧ p = 53)) (s : Nat) (hs : s < 2 ^ 64) :
    ((bytesAs k s).2 = true ↔ roundToBits p s = s) ∧
    ((bytesAs k s).2 = true → (bytesAs k s).1 = s) ∧
    ((bytesAs k s).2 = false → (bytesAs k s).1 = 0) := by
  rw [bytesAs_float k p hk s hs]
  by_cases h : roundToBits p s = s
  · rw [if_pos h]; simp [h]
  · rw [if_neg h]; simp [h]

/-- what "rounding does not change the value" means: the bits below the leading `p` are zero, i.e.
the value is `m · 2^e` with `m < 2^p` -/
theorem float_representable (p s : Nat) :
    (roundToBits p s = s ↔ (bitLen s ≤ p ∨ s % 2 ^ (bitLen s - p) = 0)) ∧
    (roundToBits p s = s ↔ Representable p s) :=
  ⟨roundToBits_fix_iff p s, (roundToBits_fix_iff p s).trans (fits_iff p s)⟩

/-- `bitLen` is the number of binary digits -/
theorem bitLen_spec (n : Nat) : n < 2 ^ bitLen n ∧ (n ≠ 0 → 2 ^ (bitLen n - 1) ≤ n) :=
  ⟨lt_two_pow_bitLen n, two_pow_bitLen_le n⟩

/-- hence: float success iff exactly representable -/
theorem bytes_float_iff_representable (k : Kind) (p : Nat)
    (hk : (k = .float32 ∧ p = 24) ∨ (k = .float64 ∧ p = 53)) (s : Nat) (hs : s < 2 ^ 64) :
    (bytesAs k s).2 = true ↔ Representable p s :=
  (bytes_exact_float k p hk s hs).1.trans (float_representable p s).2

/-! ## non-vacuity -/

-- 2^54 KiB = 2^64: refused; one less: accepted
example : newSize 18014398509481984 [75, 105, 66] = .err .invalidValue := by decide
example : newSize 18014398509481983 [75, 105, 66] = .ok 18446744073709550592 := by decide
-- ZB only with zero
example : newSize 1 [90, 66] = .err .invalidUnit := by decide
example : newSize 0 [90, 66] = .ok 0 := by decide
example : newSize 5 [120, 66] = .err .invalidUnit ∧ newSize 0 [120, 66] = .err .invalidUnit := by decide
example : newSize 3 [69, 66] = .ok 3000000000000000000 ∧ newSize 19 [69, 66] = .err .invalidValue := by decide
-- floats: 1.5 = 3·2^-1 refused, 3·2^1 = 6, -1, 2^64, NaN
example : newSizeNum (.fin 3 (-1)) [66] = .err .invalidValue ∧ newSizeNum (.fin 3 1) [107, 66] = .ok 6000 ∧
    newSizeNum (.fin (-1) 0) [] = .err .invalidValue ∧ newSizeNum (.fin 1 64) [] = .err .invalidValue ∧
    newSizeNum (.fin 4 (-2)) [] = .ok 1 ∧ newSizeNum .nan [] = .err .invalidValue ∧
    newSizeNum (.int (-5)) [] = .err .invalidValue := by decide
example : Denotes 3 1 6 := (finToNat_exact 3 1 6).mp (by decide)
example : ¬ ∃ v, Denotes 3 (-1) v := by
  rintro ⟨v, h⟩
  have h1 := (finToNat_exact 3 (-1) v).mpr h
  have h2 : finToNat 3 (-1) = none := by decide
  rw [h2] at h1
  exact absurd h1 (by simp)
-- "1_000 KiB  " = 1024000
example : unmarshalText false [49, 95, 48, 48, 48, 32, 75, 105, 66, 32, 32] = .ok 1024000 := by decide
example : [49, 95, 48, 48, 48, 32, 75, 105, 66, 32, 32] =
    render 0 [(49, [.us]), (48, []), (48, []), (48, [.sp])] [75, 105, 66] 2 := by decide
-- "10KiB  " (two trailing spaces), " 1 0\u00a0KiB"
example : unmarshalText false [49, 48, 75, 105, 66, 32, 32] = .ok 10240 := by decide
example : unmarshalText false [32, 49, 32, 48, 0xC2, 0xA0, 75, 105, 66] = .ok 10240 := by decide
example : unmarshalText true [49, 48, 75, 105, 66] = .err .unitDisabled := by decide
-- "_1", "", "KiB", "18446744073709551616"
example : unmarshalText false [95, 49] = .err .invalid ∧ unmarshalText false [] = .err .invalid ∧
    unmarshalText false [75, 105, 66] = .err .invalid := by decide
example : unmarshalText false [49,56,52,52,54,55,52,52,48,55,51,55,48,57,53,53,49,54,49,54] = .err .numRange := by
  decide
example : WellFormed [(49, [.us]), (48, [.sp])] [75, 105, 66] := by
  refine ⟨by simp, ?_, by decide, by decide, ?_, by decide, by decide⟩
  · intro p hp
    simp only [List.mem_cons, List.not_mem_nil, or_false] at hp
    rcases hp with rfl | rfl <;> decide
  · intro c hc
    simp only [List.head?_cons, Option.some.injEq] at hc
    subst hc; decide
-- Bytes[N]
example : bytesAs .float32 16777217 = (0, false) ∧ bytesAs .float32 16777216 = (16777216, true) := by decide
example : bytesAs .float64 (2 ^ 64 - 1) = (0, false) := by decide
example : bytesAs .float64 (2 ^ 64 - 2048) = (2 ^ 64 - 2048, true) := by decide
example : bytesAs .int8 127 = (127, true) ∧ bytesAs .int8 128 = (0, false) ∧
    bytesAs .uint64 (2 ^ 64 - 1) = (2 ^ 64 - 1, true) ∧ bytesAs .int64 (2 ^ 63) = (0, false) := by decide

end U.Props.C08
