import UtilModel.Lemmas.TestKit
import UtilModel.Lemmas.CodeTiesTest
/-!
# C20 — Marshal-test helpers report exactly the failing cases

Over the scripted model of the six helpers (`Model/TestKit.lean`) and the specification of a
*satisfied* case (`Spec/TestOracle.lean`). The full property is **false** of the unchanged code: a
case whose error predicate is `ErrorMatch` with a pattern that compiles, whose call does return an
error, and whose error text does not match, is *not* reported (known finding K1, pinned by the
repository's own `Test_ErrorMatch_Fail`). `errorMatch_silent` proves that negation in the model;
`reports_iff_partial` is the property for every case outside that shape.

The three Unmarshal helpers take a `TypeHelper[T]`; every statement below quantifies over it
(`hb : Option HelperBeh`, `none` = nil helper, `some b` = a scripted custom helper whose `New`,
`AssertEmpty`, `AssertEqual` differ from the defaults and whose `AssertEqual` is asymmetric). With a
custom helper "satisfied" means: the helper's own verdict about (expected := the case's value,
actual := the receiver its `New` made and the unmarshaler filled) resp. about the receiver's emptiness.
-/
namespace U.Props.C20
open U U.TestKit

/-- the full statement (false, see `errorMatch_silent`) -/
def reports_iff_statement : Prop :=
  ∀ (h : Helper) (tk : TypeKind) (hb : Option HelperBeh) (cases : List Case),
    ((run h tk hb cases).1 = true ∨ (run h tk hb cases).2.any id = true) ↔
      ((implements h tk = false ∧ cases ≠ []) ∨
       (implements h tk = true ∧ ∃ c ∈ cases, applicable h c = true ∧ satisfied h hb c = false))

/-- **K1, the negation witness**: a one-case list whose marshaler returns an error that
`ErrorMatch("^nomatch$")` does not match reports nothing although the case is not satisfied — with the
nil helper and with a custom one alike. -/
theorem errorMatch_silent :
    let c : Case := ⟨0, .nil, .nil, .re true false, .err [98, 111, 111, 109] none, .err [98, 111, 111, 109] none, none, 0⟩
    let b : HelperBeh := ⟨5, true, 5, 3⟩
    run .mt .tv none [c] = (false, [false]) ∧ run .ut .tv none [c] = (false, [false]) ∧
    run .ut .tv (some b) [c] = (false, [false]) ∧
    applicable .mt c = true ∧ satisfied .mt none c = false ∧ satisfied .ut none c = false ∧
    satisfied .ut (some b) c = false := by decide

theorem full_statement_is_false : ¬ reports_iff_statement := by
  intro h
  have := (h .mt .tv none [⟨0, .nil, .nil, .re true false, .err [98, 111, 111, 109] none, .err [98, 111, 111, 109] none, none, 0⟩]).mpr
    (Or.inr ⟨by decide, _, List.mem_singleton.mpr rfl, by decide, by decide⟩)
  revert this
  decide

/-- **per case**: an applicable case outside the K1 shape is reported exactly when it is not satisfied -/
theorem case_reported_iff (h : Helper) (hb : Option HelperBeh) (c : Case) (hk : k1 h c = false) :
    (if h.isMarshal then marshalCase h.isBinary c else unmarshalCase hb c) = !satisfied h hb c := by
  unfold satisfied
  unfold k1 at hk
  cases hm : h.isMarshal
  · simp only [hm, Bool.false_eq_true, if_false] at hk ⊢
    apply unmarshalCase_spec
    cases hh : hooksPass c
    · right; rfl
    · left; simpa [hh] using hk
  · simp only [hm, if_true] at hk ⊢
    apply marshalCase_spec
    cases hh : hooksPass c
    · right; rfl
    · left; simpa [hh] using hk

/-- **cases for the other direction are ignored** -/
theorem other_direction_ignored (h : Helper) (tk : TypeKind) (hb : Option HelperBeh) (cases : List Case)
    (i : Nat) (c : Case) (hc : cases[i]? = some c) (hna : applicable h c = false) :
    (run h tk hb cases).2[i]? = some false := by
  unfold run
  cases cases with
  | nil => simp at hc
  | cons c0 cs =>
    simp only
    split
    · simp only [List.getElem?_map, hc, Option.map_some]
    · simp only [List.getElem?_map, hc, Option.map_some]
      unfold applicable at hna
      cases hm : h.isMarshal <;> simp_all

/-- **list level**: something is reported (an `Errorf` for some case, or `FailNow`) iff the type lacks
the interface and there is at least one case, or some applicable case is not satisfied — for every
case list without a K1-shaped case, and for every `TypeHelper` (nil or custom). -/
theorem reports_iff_partial (h : Helper) (tk : TypeKind) (hb : Option HelperBeh) (cases : List Case)
    (hk : ∀ c ∈ cases, k1 h c = false) :
    ((run h tk hb cases).1 = true ∨ (run h tk hb cases).2.any id = true) ↔
      ((implements h tk = false ∧ cases ≠ []) ∨
       (implements h tk = true ∧ ∃ c ∈ cases, applicable h c = true ∧ satisfied h hb c = false)) := by
  unfold run
  cases cases with
  | nil => simp
  | cons c0 cs =>
    simp only
    cases hi : implements h tk
    · simp
    · simp only [Bool.not_true, Bool.false_eq_true, if_false, false_or, List.any_map, false_and, true_and,
        reduceCtorEq, ne_eq, not_false_eq_true, and_true]
      rw [List.any_eq_true]
      constructor
      · rintro ⟨c, hc, hr⟩
        refine ⟨c, hc, ?_⟩
        have key := case_reported_iff h hb c (hk c hc)
        simp only [Function.comp, id] at hr
        unfold applicable
        cases hm : h.isMarshal <;> simp only [hm, Bool.false_eq_true, if_false, if_true] at hr key ⊢
        · split at hr
          · rename_i ha; rw [key] at hr; exact ⟨ha, by simpa using hr⟩
          · simp at hr
        · split at hr
          · rename_i ha; rw [key] at hr; exact ⟨ha, by simpa using hr⟩
          · simp at hr
      · rintro ⟨c, hc, ha, hs⟩
        refine ⟨c, hc, ?_⟩
        have key := case_reported_iff h hb c (hk c hc)
        simp only [Function.comp, id]
        unfold applicable at ha
        cases hm : h.isMarshal <;> simp only [hm, Bool.false_eq_true, if_false, if_true] at ha key ⊢
        · rw [if_pos ha, key, hs]; rfl
        · rw [if_pos ha, key, hs]; rfl

/-- **no panic escapes**: a panic in a hook or in the Marshal*/Unmarshal* method is an input of the
model that the helper turns into an error value; the helper's result is always a verdict per case -/
theorem verdict_per_case (h : Helper) (tk : TypeKind) (hb : Option HelperBeh) (cases : List Case) :
    (run h tk hb cases).2.length = cases.length := by
  unfold run
  cases cases with
  | nil => rfl
  | cons c cs => simp only; split <;> simp

/-- a type lacking the interface is reported through `FailNow` as soon as there is one case -/
theorem fail_type (h : Helper) (tk : TypeKind) (hb : Option HelperBeh) (cases : List Case)
    (hi : implements h tk = false) :
    (run h tk hb cases).1 = !cases.isEmpty := by
  unfold run
  cases cases with
  | nil => rfl
  | cons c cs => simp [hi]

/-- **the custom helper is asked the right questions**: for an Unmarshal helper, a case with passing
hooks and a custom helper `b`: without an error predicate and without an error the verdict is exactly
`b.AssertEqual(expected := c.value, actual := receiver)`, where the receiver is what the unmarshaler
stored, else `b.New(c.value)` untouched; with predicate `AnyError` and an error it is exactly
`b.AssertEmpty(receiver)`. (Argument order, the use of `New` and its argument are all pinned here.) -/
theorem custom_helper_asked (b : HelperBeh) (c : Case) (hh : hooksPass c = true) :
    (c.pred = .none → unmarshalErr c.ubeh = .none →
      unmarshalCase (some b) c = b.assertEqual c.value ((unmarshalStored c.ubeh).getD (b.new c.value))) ∧
    (c.pred = .any → unmarshalErr c.ubeh ≠ .none →
      unmarshalCase (some b) c = b.assertEmpty ((unmarshalStored c.ubeh).getD (b.new c.value))) := by
  unfold hooksPass at hh
  simp only [Bool.and_eq_true, Bool.not_eq_true'] at hh
  unfold unmarshalCase unmarshalResult helperNew helperAssertEqual helperAssertEmpty
  simp only [hh.1, hh.2, Bool.false_eq_true, if_false]
  constructor
  · intro hp he; simp [hp, he, ErrV.isNil]
  · intro hp he
    simp only [hp]
    cases hx : unmarshalErr c.ubeh <;> simp_all [applyPred, ErrV.isNil]

/-- the Marshal helpers take no `TypeHelper` -/
theorem marshal_ignores_helper (h : Helper) (tk : TypeKind) (hb : Option HelperBeh) (cases : List Case)
    (hm : h.isMarshal = true) : run h tk hb cases = run h tk none cases := by
  unfold run
  simp [hm]

/-! non-vacuity -/
example : run .mt .tv none [⟨0, .ok, .nil, .none, .data (some [97]), .ok none, some [97], 0⟩] = (false, [false]) := by decide
example : run .mt .tv none [⟨0, .ok, .nil, .none, .data (some [98]), .ok none, some [97], 0⟩] = (false, [true]) := by decide
example : run .mb .tv none [⟨0, .nil, .nil, .none, .data none, .ok none, some [], 0⟩] = (false, [true]) := by decide   -- nil vs empty
example : run .mt .tp none [⟨0, .nil, .nil, .none, .data none, .ok none, none, 0⟩] = (true, [false]) := by decide      -- FailNow
example : run .ut .tv none [⟨0, .nil, .panic, .none, .data none, .ok (some 5), none, 5⟩] = (false, [true]) := by decide -- hook panic

/-! non-vacuity with a custom `TypeHelper`: its verdict differs from the nil helper's in both directions -/
section
private def cU (p : Pred) (u : UBeh) (v : Int) : Case := ⟨0, .nil, .nil, p, .data none, u, none, v⟩
-- helper accepts what `assert.Equal` rejects: expected 1, stored 3, `3 mod 2 = 1`
example : run .ut .tv none [cU .none (.ok (some 3)) 1] = (false, [true]) := by decide
example : run .ut .tv (some ⟨0, false, 0, 2⟩) [cU .none (.ok (some 3)) 1] = (false, [false]) := by decide
-- helper rejects what `assert.Equal` accepts: expected 2, stored 2, `2 mod 2 = 0 ≠ 2`
example : run .uj .ptp none [cU .none (.ok (some 2)) 2] = (false, [false]) := by decide
example : run .uj .ptp (some ⟨0, false, 0, 2⟩) [cU .none (.ok (some 2)) 2] = (false, [true]) := by decide
-- argument order matters: (expected 1, actual 3) is accepted, (expected 3, actual 1) is not
example : run .ub .tv (some ⟨0, false, 0, 2⟩) [cU .none (.ok (some 1)) 3] = (false, [true]) := by decide
-- `New` is observable: an unmarshaler that stores nothing leaves what `New` made (5, or 5 + the case's value)
example : run .ut .tv none [cU .none (.ok none) 0] = (false, [false]) := by decide
example : run .ut .tv (some ⟨5, false, 0, 0⟩) [cU .none (.ok none) 0] = (false, [true]) := by decide
example : run .ut .tv none [cU .none (.ok none) 5] = (false, [true]) := by decide
example : run .ut .tv (some ⟨5, false, 0, 0⟩) [cU .none (.ok none) 5] = (false, [false]) := by decide
example : run .ut .tv (some ⟨1, true, 0, 0⟩) [cU .none (.ok none) 2] = (false, [true]) := by decide    -- New(2) = 3 ≠ 2
example : run .ut .tv (some ⟨0, true, 0, 0⟩) [cU .none (.ok none) 2] = (false, [false]) := by decide   -- New(2) = 2
-- expected error: the helper's idea of "empty" (7) replaces the zero value
example : run .ut .tv none [cU .any (.err [101] (some 7)) 0] = (false, [true]) := by decide
example : run .ut .tv (some ⟨0, false, 7, 0⟩) [cU .any (.err [101] (some 7)) 0] = (false, [false]) := by decide
example : run .ut .tv none [cU .any (.err [101] none) 0] = (false, [false]) := by decide
example : run .ut .tv (some ⟨0, false, 7, 0⟩) [cU .any (.err [101] none) 0] = (false, [true]) := by decide
example : run .ut .tv (some ⟨7, false, 7, 0⟩) [cU .any (.err [101] none) 0] = (false, [false]) := by decide
-- the specification agrees on all of these
example : satisfied .ut (some ⟨0, false, 0, 2⟩) (cU .none (.ok (some 3)) 1) = true ∧ satisfied .ut none (cU .none (.ok (some 3)) 1) = false ∧
    satisfied .ut (some ⟨0, false, 0, 2⟩) (cU .none (.ok (some 2)) 2) = false ∧ satisfied .ut none (cU .none (.ok (some 2)) 2) = true ∧
    satisfied .ut (some ⟨0, false, 7, 0⟩) (cU .any (.err [101] (some 7)) 0) = true ∧ satisfied .ut none (cU .any (.err [101] (some 7)) 0) = false := by decide
-- a type without the interface is reported whatever the helper
example : run .ut .tn (some ⟨5, true, 7, 2⟩) [cU .none (.ok none) 0] = (true, [false]) := by decide
end

/-- **hooks that edit the case** (list level, full strength): with hooks that write `Data`, `Value`, `Error`
(and `Constraint`) into the case they are handed, something is reported iff the type lacks the interface and
there is a case, or some case that is applicable *as written in the list* is not satisfied *as completed by its
hooks* — for every list without a K1-shaped completed case and every `TypeHelper`. -/
theorem reportsX_iff_partial (h : Helper) (tk : TypeKind) (hb : Option HelperBeh) (xs : List XCase)
    (hk : ∀ x ∈ xs, k1 h x.completed = false) :
    ((runX h tk hb xs).1 = true ∨ (runX h tk hb xs).2.any id = true) ↔
      ((implements h tk = false ∧ xs ≠ []) ∨
       (implements h tk = true ∧ ∃ x ∈ xs, applicable h x.base = true ∧ satisfied h hb x.completed = false)) := by
  unfold runX
  have hmap : xs.map XCase.eff = xs.map XCase.completed := List.map_congr_left (fun x _ => eff_eq_completed x)
  rw [hmap]
  have := reports_iff_partial h tk hb (xs.map XCase.completed) (by
    intro c hc
    obtain ⟨x, hx, rfl⟩ := List.mem_map.mp hc
    exact hk x hx)
  rw [this]
  constructor
  · rintro (⟨hi, hne⟩ | ⟨hi, c, hc, ha, hs⟩)
    · left; exact ⟨hi, by intro h0; apply hne; simp [h0]⟩
    · right
      obtain ⟨x, hx, rfl⟩ := List.mem_map.mp hc
      exact ⟨hi, x, hx, ha, hs⟩
  · rintro (⟨hi, hne⟩ | ⟨hi, x, hx, ha, hs⟩)
    · left; exact ⟨hi, by intro h0; apply hne; simpa using h0⟩
    · right; exact ⟨hi, x.completed, List.mem_map.mpr ⟨x, hx, rfl⟩, ha, hs⟩

/-- per case: the verdict on a case with editing hooks is the verdict on the completed case -/
theorem caseX_reported_iff (h : Helper) (hb : Option HelperBeh) (x : XCase) (hk : k1 h x.completed = false) :
    (if h.isMarshal then marshalCase h.isBinary x.eff else unmarshalCase hb x.eff) = !satisfied h hb x.completed := by
  rw [eff_eq_completed]; exact case_reported_iff h hb x.completed hk

/-- a `Constraint` written by a hook has no effect -/
theorem hook_constraint_ignored (h : Helper) (tk : TypeKind) (hb : Option HelperBeh) (xs : List XCase) (n m : Option Nat) :
    runX h tk hb (xs.map fun x => { x with before := { x.before with constraint := n }, after := { x.after with constraint := m } }) =
      runX h tk hb xs := by
  unfold runX
  rw [List.map_map]
  congr 1

/-- conservative extension: hooks that write nothing give the helpers of the unedited cases -/
theorem runX_no_edits (h : Helper) (tk : TypeKind) (hb : Option HelperBeh) (cases : List Case) :
    runX h tk hb (cases.map fun c => ⟨c, Edit.none, Edit.none⟩) = run h tk hb cases := by
  unfold runX
  rw [List.map_map]
  have : (XCase.eff ∘ fun c => (⟨c, Edit.none, Edit.none⟩ : XCase)) = id := by
    funext c
    obtain ⟨cc, hbf, haf, p, m, u, d, v⟩ := c
    cases hbf <;> cases haf <;> rfl
  rw [this, List.map_id]

/-- cases for the other direction stay ignored, whatever their hooks would write -/
theorem otherX_direction_ignored (h : Helper) (tk : TypeKind) (hb : Option HelperBeh) (xs : List XCase)
    (i : Nat) (x : XCase) (hx : xs[i]? = some x) (hna : applicable h x.base = false) :
    (runX h tk hb xs).2[i]? = some false := by
  unfold runX
  apply other_direction_ignored h tk hb (xs.map XCase.eff) i x.eff
  · simp [hx]
  · rw [eff_eq_completed]; exact hna

/-! non-vacuity: the Before hook completes a case whose literal is wrong, and spoils one whose literal is right -/
section
private def lit (d : Option Bytes) (p : Pred) (m : MBeh) : Case := ⟨0, .ok, .nil, p, m, .ok none, d, 0⟩
example : runX .mt .tv none [⟨lit (some [120]) .none (.data (some [97])), ⟨some (some [97]), none, none, none⟩, Edit.none⟩] = (false, [false]) := by decide
example : run .mt .tv none [lit (some [120]) .none (.data (some [97]))] = (false, [true]) := by decide
example : runX .mt .tv none [⟨lit (some [97]) .none (.data (some [97])), ⟨some (some [120]), none, none, none⟩, Edit.none⟩] = (false, [true]) := by decide
-- the hook sets the error predicate
example : runX .mj .tv none [⟨lit none .none (.err [98] none), ⟨none, none, some (.eq [98]), none⟩, Edit.none⟩] = (false, [false]) := by decide
-- an absent hook writes nothing
example : runX .mt .tv none [⟨{ lit (some [120]) .none (.data (some [97])) with before := .nil }, ⟨some (some [97]), none, none, none⟩, Edit.none⟩] = (false, [true]) := by decide
-- After writes last
example : runX .mt .tv none [⟨{ lit (some [120]) .none (.data (some [97])) with after := .ok }, ⟨some (some [98]), none, none, none⟩, ⟨some (some [97]), none, none, none⟩⟩] = (false, [false]) := by decide
-- Value: the number New gets and the expected value (Unmarshal helpers)
example : runX .ut .tv none [⟨⟨0, .ok, .nil, .none, .data none, .ok (some 5), none, 0⟩, ⟨none, some 5, none, none⟩, Edit.none⟩] = (false, [false]) := by decide
example : runX .ut .tv (some ⟨1, true, 0, 0⟩) [⟨⟨0, .ok, .nil, .none, .data none, .ok none, none, 0⟩, ⟨none, some 2, none, none⟩, Edit.none⟩] = (false, [true]) := by decide  -- New(2) = 3 ≠ 2
-- a constraint written by Before comes too late
example : runX .mt .tv none [⟨lit (some [120]) .none (.data (some [97])), ⟨none, none, none, some 2⟩, Edit.none⟩] = (false, [true]) := by decide
end

/-- **tie to the source**: `isForMarshal` / `isForUnmarshal` as translated from `test/constraint.go` on this run -/
theorem constraint_code_tie (c : Nat) :
    isForMarshal c = Gen.test_isForMarshal c ∧ isForUnmarshal c = Gen.test_isForUnmarshal c :=
  CodeTies.isFor_tie c

end U.Props.C20
