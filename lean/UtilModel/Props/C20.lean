import UtilModel.Lemmas.TestKit
import UtilModel.Lemmas.CodeTiesTest
/-!
# C20 — Marshal-test helpers report exactly the failing cases

Over the scripted model of the six helpers (`Model/TestKit.lean`) and the specification of a
*satisfied* case (`Spec/TestOracle.lean`). The full property is **false** of the unchanged code: a
case whose error predicate is `ErrorMatch` with a pattern that compiles, whose call does return an
error, and whose error text does not match, is *not* reported (known finding K1, pinned by the
repository's own `Test_ErrorMatch_Fail`). `errorMatch_silent` proves that negation in the model;
`reports_iff_partial` is the property for every case outside that shape.
-/
namespace U.Props.C20
open U U.TestKit

/-- the full statement (false, see `errorMatch_silent`) -/
def reports_iff_statement : Prop :=
  ∀ (h : Helper) (tk : TypeKind) (cases : List Case),
    ((run h tk cases).1 = true ∨ (run h tk cases).2.any id = true) ↔
      ((implements h tk = false ∧ cases ≠ []) ∨
       (implements h tk = true ∧ ∃ c ∈ cases, applicable h c = true ∧ satisfied h c = false))

/-- **K1, the negation witness**: a one-case list whose marshaler returns an error that
`ErrorMatch("^nomatch$")` does not match reports nothing although the case is not satisfied. -/
theorem errorMatch_silent :
    let c : Case := ⟨0, .nil, .nil, .re true false, .err [98, 111, 111, 109] none, .err [98, 111, 111, 109] none, none, 0⟩
    run .mt .tv [c] = (false, [false]) ∧ run .ut .tv [c] = (false, [false]) ∧
    applicable .mt c = true ∧ satisfied .mt c = false ∧ satisfied .ut c = false := by decide

theorem full_statement_is_false : ¬ reports_iff_statement := by
  intro h
  have := (h .mt .tv [⟨0, .nil, .nil, .re true false, .err [98, 111, 111, 109] none, .err [98, 111, 111, 109] none, none, 0⟩]).mpr
    (Or.inr ⟨by decide, _, List.mem_singleton.mpr rfl, by decide, by decide⟩)
  revert this
  decide

/-- **per case**: an applicable case outside the K1 shape is reported exactly when it is not satisfied -/
theorem case_reported_iff (h : Helper) (c : Case) (hk : k1 h c = false) :
    (if h.isMarshal then marshalCase h.isBinary c else unmarshalCase c) = !satisfied h c := by
  unfold satisfied
  unfold k1 at hk
  cases hm : h.isMarshal
  · simp only [hm, Bool.false_eq_true, if_false] at hk ⊢
    apply unmarshalCase_spec
    cases hh : hooksPass c
    · right; rfl
    · left; simpa [hh] using hk
  · simp only [hm, if_true] at hk ⊢
    apply marshalCase_spec
    cases hh : hooksPass c
    · right; rfl
    · left; simpa [hh] using hk

/-- **cases for the other direction are ignored** -/
theorem other_direction_ignored (h : Helper) (tk : TypeKind) (cases : List Case) (i : Nat) (c : Case)
    (hc : cases[i]? = some c) (hna : applicable h c = false) :
    (run h tk cases).2[i]? = some false := by
  unfold run
  cases cases with
  | nil => simp at hc
  | cons c0 cs =>
    simp only
    split
    · simp only [List.getElem?_map, hc, Option.map_some]
    · simp only [List.getElem?_map, hc, Option.map_some]
      unfold applicable at hna
      cases hm : h.isMarshal <;> simp_all

/-- **list level**: something is reported (an `Errorf` for some case, or `FailNow`) iff the type lacks
the interface and there is at least one case, or some applicable case is not satisfied — for every
case list without a K1-shaped case. -/
theorem reports_iff_partial (h : Helper) (tk : TypeKind) (cases : List Case)
    (hk : ∀ c ∈ cases, k1 h c = false) :
    ((run h tk cases).1 = true ∨ (run h tk cases).2.any id = true) ↔
      ((implements h tk = false ∧ cases ≠ []) ∨
       (implements h tk = true ∧ ∃ c ∈ cases, applicable h c = true ∧ satisfied h c = false)) := by
  unfold run
  cases cases with
  | nil => simp
  | cons c0 cs =>
    simp only
    cases hi : implements h tk
    · simp
    · simp only [Bool.not_true, Bool.false_eq_true, if_false, false_or, List.any_map, false_and, true_and,
        reduceCtorEq, ne_eq, not_false_eq_true, and_true]
      rw [List.any_eq_true]
      constructor
      · rintro ⟨c, hc, hr⟩
        refine ⟨c, hc, ?_⟩
        have key := case_reported_iff h c (hk c hc)
        simp only [Function.comp, id] at hr
        unfold applicable
        cases hm : h.isMarshal <;> simp only [hm, Bool.false_eq_true, if_false, if_true] at hr key ⊢
        · split at hr
          · rename_i ha; rw [key] at hr; exact ⟨ha, by simpa using hr⟩
          · simp at hr
        · split at hr
          · rename_i ha; rw [key] at hr; exact ⟨ha, by simpa using hr⟩
          · simp at hr
      · rintro ⟨c, hc, ha, hs⟩
        refine ⟨c, hc, ?_⟩
        have key := case_reported_iff h c (hk c hc)
        simp only [Function.comp, id]
        unfold applicable at ha
        cases hm : h.isMarshal <;> simp only [hm, Bool.false_eq_true, if_false, if_true] at ha key ⊢
        · rw [if_pos ha, key, hs]; rfl
        · rw [if_pos ha, key, hs]; rfl

/-- **no panic escapes**: a panic in a hook or in the Marshal*/Unmarshal* method is an input of the
model that the helper turns into an error value; the helper's result is always a verdict per case -/
theorem verdict_per_case (h : Helper) (tk : TypeKind) (cases : List Case) :
    (run h tk cases).2.length = cases.length := by
  unfold run
  cases cases with
  | nil => rfl
  | cons c cs => simp only; split <;> simp

/-- a type lacking the interface is reported through `FailNow` as soon as there is one case -/
theorem fail_type (h : Helper) (tk : TypeKind) (cases : List Case) (hi : implements h tk = false) :
    (run h tk cases).1 = !cases.isEmpty := by
  unfold run
  cases cases with
  | nil => rfl
  | cons c cs => simp [hi]

/-! non-vacuity -/
example : run .mt .tv [⟨0, .ok, .nil, .none, .data (some [97]), .ok none, some [97], 0⟩] = (false, [false]) := by decide
example : run .mt .tv [⟨0, .ok, .nil, .none, .data (some [98]), .ok none, some [97], 0⟩] = (false, [true]) := by decide
example : run .mb .tv [⟨0, .nil, .nil, .none, .data none, .ok none, some [], 0⟩] = (false, [true]) := by decide   -- nil vs empty
example : run .mt .tp [⟨0, .nil, .nil, .none, .data none, .ok none, none, 0⟩] = (true, [false]) := by decide      -- FailNow
example : run .ut .tv [⟨0, .nil, .panic, .none, .data none, .ok (some 5), none, 5⟩] = (false, [true]) := by decide -- hook panic

/-- **tie to the source**: `isForMarshal` / `isForUnmarshal` as translated from `test/constraint.go` on this run -/
theorem constraint_code_tie (c : Nat) :
    isForMarshal c = Gen.test_isForMarshal c ∧ isForUnmarshal c = Gen.test_isForUnmarshal c :=
  CodeTies.isFor_tie c

end U.Props.C20
