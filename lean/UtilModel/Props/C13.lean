import UtilModel.Lemmas.SizeFormat
/-!
# C13 — Shortened and pretty size renderings are exact and maximal
-/
namespace U.Props.C13
open U U.Size

/-- the binary units and their multipliers (specification; compared with the generated tables below) -/
def binaryUnits : List (Bytes × Nat) :=
  [([66], 1), ([75, 105, 66], 1024), ([77, 105, 66], 1024 ^ 2), ([71, 105, 66], 1024 ^ 3),
   ([84, 105, 66], 1024 ^ 4), ([80, 105, 66], 1024 ^ 5), ([69, 105, 66], 1024 ^ 6)]

/-- generated facts: the loop's unit list, final unit, mask and shift are the ones the spec expects -/
theorem tables : Gen.size_shortenUnits ++ [Gen.size_shortenLast] = binaryUnits.map (·.1) ∧
    Gen.size_shortenMask = 1023 ∧ Gen.size_shortenShift = 10 ∧ Gen.size_Byte = [66] := by decide

/-- **exact and maximal**: the value times the unit's multiplier is the size; the unit is the k-th
binary unit; no larger binary unit (up to EiB) divides the size. Zero gives `0 B`. -/
theorem shorten_exact_maximal (s : Nat) (hs : s < two64) :
    ∃ k, k ≤ 6 ∧ binaryUnits[k]? = some ((shorten s).2, 1024 ^ k) ∧ (shorten s).1 * 1024 ^ k = s ∧
      (s ≠ 0 → k < 6 → ¬ (1024 ^ (k + 1) ∣ s)) ∧ (s = 0 → k = 0 ∧ (shorten s).1 = 0) := by
  unfold shorten
  by_cases h0 : s = 0
  · subst h0
    exact ⟨0, by omega, by decide, by simp, by simp, by simp⟩
  · rw [if_neg h0]
    obtain ⟨j, hj, hv, h1, h2⟩ := shortenLoop_spec Gen.size_shortenUnits s
    have hlen : Gen.size_shortenUnits.length = 6 := by decide
    rw [hlen] at hj h1 h2
    generalize shortenLoop Gen.size_shortenUnits s = r at *
    refine ⟨j, hj, ?_, hv.symm, ?_, fun h => absurd h h0⟩
    · by_cases hj6 : j = 6
      · subst hj6
        rw [h2 rfl]; decide
      · obtain ⟨_, hu⟩ := h1 (by omega)
        have : j = 0 ∨ j = 1 ∨ j = 2 ∨ j = 3 ∨ j = 4 ∨ j = 5 := by omega
        rcases this with rfl | rfl | rfl | rfl | rfl | rfl <;>
          (simp only [Gen.size_shortenUnits, List.getElem?_cons_zero, List.getElem?_cons_succ, Option.some.injEq] at hu
           rw [← hu]; decide)
    · intro _ hlt hdvd
      obtain ⟨hne, _⟩ := h1 hlt
      obtain ⟨q, hq⟩ := hdvd
      apply hne
      have hp : 0 < 1024 ^ j := Nat.pow_pos (by decide)
      have : r.1 = 1024 * q := by
        have e : r.1 * 1024 ^ j = (1024 * q) * 1024 ^ j := by
          rw [← hv, hq, Nat.pow_succ]
          rw [Nat.mul_assoc, Nat.mul_comm (1024 ^ j) (1024 * q)]
        exact Nat.eq_of_mul_eq_mul_right hp e
      rw [this]; omega

/-- **default rendering**: the value immediately followed by the unit (also with `FormatHTML` alone) -/
theorem plain (s f : Nat) (hf : hasFlag f Gen.size_FormatPretty = false) :
    Size.format [] s f = dec (shorten s).1 ++ (shorten s).2 := by
  unfold Size.format
  simp only [List.nil_append]
  rw [groupLoop_eq]
  have : separator f = [] := by unfold separator; rw [hf]; rfl
  rw [this, withSeps_nil]

/-- **pretty rendering**: every digit that has a multiple of three digits to its right is followed by
one separator (a space, or `&nbsp;` with `FormatHTML`) — so the digits are grouped in threes from the
right and one separator stands before the unit — and nothing else is added. -/
theorem pretty (s f : Nat) (hf : hasFlag f Gen.size_FormatPretty = true) :
    Size.format [] s f =
      withSeps (if hasFlag f Gen.size_FormatHTML then [38, 110, 98, 115, 112, 59] else [32])
        (fun i => decide (((dec (shorten s).1).length - 1 - i) % 3 = 0)) (dec (shorten s).1) 0
      ++ (shorten s).2 := by
  unfold Size.format
  simp only [List.nil_append]
  rw [groupLoop_eq]
  have hsep : separator f = (if hasFlag f Gen.size_FormatHTML then [38, 110, 98, 115, 112, 59] else [32]) := by
    unfold separator
    rw [hf]
    cases hasFlag f Gen.size_FormatHTML <;> rfl
  rw [hsep]
  congr 1
  apply withSeps_congr
  intro k _ hk
  simp only [Nat.zero_add] at hk
  generalize (dec (shorten s).1).length = n at hk ⊢
  have : ((k + (3 - n % 3)) % 3 = 2) ↔ ((n - 1 - k) % 3 = 0) := by omega
  simp only [this]

/-! non-vacuity -/
example : shorten 1024 = (1, [75, 105, 66]) ∧ shorten 1025 = (1025, [66]) ∧ shorten 0 = (0, [66]) := by decide
example : shorten (2 ^ 64 - 2 ^ 60) = (15, [69, 105, 66]) := by decide
example : Size.format [] 10000000 1 = [49,48,32,48,48,48,32,48,48,48,32,66] := by decide      -- "10 000 000 B"
example : Size.format [] 1234 3 = [49,38,110,98,115,112,59,50,51,52,38,110,98,115,112,59,66] := by decide

theorem string_paths (s : Nat) :
    Size.toString s = Size.format [] s 0 ∧ prettyString s = Size.format [] s 1 ∧ prettyHTML s = Size.format [] s 3 ∧
    bytesString s = dec s ∧ hasFlag 1 Gen.size_FormatPretty = true ∧ hasFlag 3 Gen.size_FormatPretty = true ∧
    hasFlag 3 Gen.size_FormatHTML = true ∧ hasFlag 1 Gen.size_FormatHTML = false ∧ hasFlag 0 Gen.size_FormatPretty = false := by
  refine ⟨rfl, rfl, rfl, rfl, ?_, ?_, ?_, ?_, ?_⟩ <;> decide

end U.Props.C13
