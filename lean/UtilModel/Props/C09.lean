import UtilModel.Lemmas.DateText
import UtilModel.Lemmas.CodeTiesDate
/-!
# C09 — Date parser accepts only real calendar dates and keeps their components

`Date.parse maxLen disableBasic s` models `DefaultParser(input, r)` (after fix F3) with
`MaxInputLength = maxLen` and `r & RuleDisableBasic != 0 = disableBasic`.
`Date.text ext ys m1 m2 d1 d2` is the text `YYYY-MM-DD` (`ext`) or `YYYYMMDD` spelled with the given
year digits and month/day bytes.
-/
namespace U.Props.C09
open U U.Date U.GoTime

/-- the model's `validDate` (F3) is the calendar specification -/
theorem validDate_iff (y : Nat) (m d : Nat) : validDate y m d = true ↔ ValidDate y m d := by
  simp only [validDate, Bool.and_eq_true, decide_eq_true_eq, ValidDate]
  omega

/-- **acceptance is exactly the grammar plus calendar validity** (within the limit, basic form only when
allowed): 4–9 year digits, two month digits, two day digits, separators both present or both absent,
naming an existing day. -/
theorem accepts_iff (maxLen : Nat) (disableBasic : Bool) (s : Bytes) :
    (∃ d, parse maxLen disableBasic s = .ok d) ↔
      (maxLen = 0 ∨ s.length ≤ maxLen) ∧
      ∃ ext ys m1 m2 d1 d2, s = text ext ys m1 m2 d1 d2 ∧ allDigits ys = true ∧ 4 ≤ ys.length ∧ ys.length ≤ 9 ∧
        isDigit m1 = true ∧ isDigit m2 = true ∧ isDigit d1 = true ∧ isDigit d2 = true ∧
        ValidDate (val ys) (val [m1, m2]) (val [d1, d2]) ∧ (ext = false → disableBasic = false) := by
  constructor
  · rintro ⟨d, h⟩
    obtain ⟨hlen, ext, ys, m1, m2, d1, d2, hs, hys, h4, h9, hm, hd, hv, hb, _⟩ := parse_sound maxLen disableBasic s d h
    have hmd := monthPat_digits hm
    have hdd := dayPat_digits hd
    exact ⟨hlen, ext, ys, m1, m2, d1, d2, hs, hys, h4, h9, hmd.1, hmd.2, hdd.1, hdd.2, (validDate_iff _ _ _).mp hv, hb⟩
  · rintro ⟨hlen, ext, ys, m1, m2, d1, d2, rfl, hys, h4, h9, hm1, hm2, hd1, hd2, hv, hb⟩
    have := parse_text maxLen disableBasic ext ys m1 m2 d1 d2 hys ⟨h4, h9⟩ hm1 hm2 hd1 hd2
      ((validDate_iff _ _ _).mpr hv) hlen
    refine ⟨new (val ys) (val [m1, m2]) (val [d1, d2]), ?_⟩
    rw [this]
    cases ext
    · simp [hb rfl]
    · simp

/-- **components**: an accepted text yields exactly the written year, month and day. -/
theorem components (maxLen : Nat) (disableBasic : Bool) (s : Bytes) (d : Date)
    (h : parse maxLen disableBasic s = .ok d) :
    ∃ ext ys m1 m2 d1 d2, s = text ext ys m1 m2 d1 d2 ∧ d.date = ((val ys : Int), val [m1, m2], val [d1, d2]) := by
  obtain ⟨_, ext, ys, m1, m2, d1, d2, hs, hys, h4, h9, hm, hd, hv, _, hd'⟩ := parse_sound maxLen disableBasic s d h
  refine ⟨ext, ys, m1, m2, d1, d2, hs, ?_⟩
  have hvd := (validDate_iff _ _ _).mp hv
  have hlt := val_lt ys hys
  have h9' : val ys < 10 ^ 9 := Nat.lt_of_lt_of_le hlt (Nat.pow_le_pow_right (by decide) h9)
  rw [hd', date_new_valid hvd ⟨by omega, by omega⟩]
  simp

/-- **errors**: over-long input (limit non-zero) is refused with the dedicated error before anything else … -/
theorem too_long (maxLen : Nat) (disableBasic : Bool) (s : Bytes) (h0 : maxLen ≠ 0) (h : s.length > maxLen) :
    parse maxLen disableBasic s = .err .tooLong := by
  unfold parse
  simp only
  rw [if_neg (by omega), if_pos ⟨h0, h⟩]

/-- … empty input is invalid … -/
theorem empty_invalid (maxLen : Nat) (disableBasic : Bool) : parse maxLen disableBasic [] = .err .invalid := by
  simp [parse]

/-- … and a well-formed basic text of a real date is refused with the dedicated error when the rule disables it. -/
theorem basic_disabled (maxLen : Nat) (ys : Bytes) (m1 m2 d1 d2 : Nat)
    (hys : allDigits ys = true) (hl : 4 ≤ ys.length ∧ ys.length ≤ 9)
    (hm1 : isDigit m1 = true) (hm2 : isDigit m2 = true) (hd1 : isDigit d1 = true) (hd2 : isDigit d2 = true)
    (hv : ValidDate (val ys) (val [m1, m2]) (val [d1, d2]))
    (hlen : maxLen = 0 ∨ (text false ys m1 m2 d1 d2).length ≤ maxLen) :
    parse maxLen true (text false ys m1 m2 d1 d2) = .err .basicDisabled := by
  rw [parse_text maxLen true false ys m1 m2 d1 d2 hys hl hm1 hm2 hd1 hd2 ((validDate_iff _ _ _).mpr hv) hlen]
  simp

/-- every rejection carries one of the three documented classes (never a panic: see C18) -/
theorem error_classes (maxLen : Nat) (disableBasic : Bool) (s : Bytes) (e : Err)
    (h : parse maxLen disableBasic s = .err e) : e = .invalid ∨ e = .tooLong ∨ e = .basicDisabled := by
  unfold parse at h
  simp only at h
  repeat' split at h
  all_goals first
    | (simp only [Outcome.err.injEq] at h; subst h; simp)
    | simp at h

/-! non-vacuity and the defect that fix F3 removed -/
example : parse 10 false [50,48,50,52,45,48,50,45,50,57] = .ok (new 2024 2 29) := by decide   -- 2024-02-29
example : parse 10 false [50,48,50,50,45,48,50,45,51,48] = .err .invalid := by decide          -- 2022-02-30
example : parse 10 false [50,48,50,50,45,48,48,45,49,48] = .err .invalid := by decide          -- 2022-00-10
example : parse 10 true [50,48,50,52,48,50,50,57] = .err .basicDisabled := by decide           -- 20240229
example : parse 10 false [50,48,50,52,45,48,50,50,57] = .err .invalid := by decide             -- 2024-0229

/-- **tie to the source**: `validDate` as translated from `date/parse.go` on this run equals the model's
calendar check (which uses the Euclidean remainder; the translated Go uses `year%4 == 0 && (year%100 != 0 ||
year%400 == 0)` — the two agree for every integer year) -/
theorem validDate_code_tie (y : Int) (m d : Nat) : validDate y m d = Gen.date_validDate y m d :=
  CodeTies.validDate_tie y m d

end U.Props.C09
