import UtilModel.Lemmas.DateBasics
import UtilModel.Lemmas.CodeTiesDate
/-!
# C11 — Date binary encoding is stable, strict and lossless

Statements about `Date.marshalBinary` / `Date.unmarshalBinary` (model of `MarshalBinary` /
`UnmarshalBinary` after fix F4). Property theorems only; helper lemmas live in `Lemmas/`.
-/
namespace U.Props.C11
open U U.Date U.GoTime

/-- generated fact: the version byte in the source is 1 -/
theorem version_is_one : Gen.date_version = 1 := rfl

/-- big-endian two's-complement decoding of four bytes -/
def be32 (b1 b2 b3 b4 : Nat) : Int := wrap32 ((b1 * 16777216 + b2 * 65536 + b3 * 256 + b4 : Nat) : Int)

/-- **layout**: seven bytes — version 1, the visible year as big-endian signed 32-bit, month, day — for
every stored value (no validity assumption). -/
theorem marshal_layout (d : Date) :
    ∃ b1 b2 b3 b4, marshalBinary d = [1, b1, b2, b3, b4, d.date.2.1, d.date.2.2] ∧
      b1 < 256 ∧ b2 < 256 ∧ b3 < 256 ∧ b4 < 256 ∧ be32 b1 b2 b3 b4 = d.date.1 := by
  refine ⟨byteOf (wrap32 (d.year + 1) / 16777216), byteOf (wrap32 (d.year + 1) / 65536), byteOf (wrap32 (d.year + 1) / 256),
    byteOf (wrap32 (d.year + 1)), by simp only [marshalBinary, version_is_one, Date.date], ?_, ?_, ?_, ?_, ?_⟩
  all_goals simp only [byteOf, Date.date, be32]
  · omega
  · omega
  · omega
  · omega
  · have := wrap32_range (d.year + 1)
    generalize wrap32 (d.year + 1) = y at *
    unfold wrap32
    omega

/-- **round trip**: every real calendar date within ±999,999,999 years survives marshal → unmarshal. -/
theorem roundtrip (y : Int) (m : Nat) (d : Int) (hv : ValidDate y m d)
    (hy : -999999999 ≤ y ∧ y ≤ 999999999) :
    unmarshalBinary (marshalBinary (new y m d)) = .ok (new y m d) := by
  have hdate := date_new_valid hv ⟨by omega, by omega⟩
  have hnew := new_valid hv
  obtain ⟨h1, h12, hd1, hd⟩ := hv
  have hdl := daysIn_le y m
  rw [hnew]
  unfold marshalBinary unmarshalBinary
  simp only [version_is_one, ne_eq, not_true_eq_false, if_false]
  have e0 : wrap32 (wrap32 (y - 1) + 1) = y := by rw [wrap32_succ_pred, wrap32_id (by omega)]
  rw [e0]
  have ey : wrap32 ((byteOf (y / 16777216) * 16777216 + byteOf (y / 65536) * 65536 + byteOf (y / 256) * 256 + byteOf y : Nat) : Int) = y := by
    unfold byteOf wrap32; omega
  have em : (m - 1 + 1) % 256 = m := by omega
  have ed : ((d - 1).toNat + 1) % 256 = d.toNat := by omega
  rw [ey, em, ed]
  have hvd : validDate y m d.toNat = true := by
    simp only [validDate, Bool.and_eq_true, decide_eq_true_eq]
    omega
  rw [if_pos hvd]
  have e1 : (m + 255) % 256 = m - 1 := by omega
  have e2 : (d.toNat + 255) % 256 = (d - 1).toNat := by omega
  rw [e1, e2]

/-- **strictness**: empty input, wrong version, wrong length — each with its documented error. -/
theorem strict_empty : unmarshalBinary [] = .err .invalidLength := rfl

theorem strict_version (v : Nat) (rest : Bytes) (h : v ≠ 1) :
    unmarshalBinary (v :: rest) = .err .unsupportedVersion := by
  unfold unmarshalBinary; simp [h, version_is_one]

theorem strict_length (rest : Bytes) (h : rest.length ≠ 6) :
    unmarshalBinary (1 :: rest) = .err .invalidLength := by
  unfold unmarshalBinary
  simp only [version_is_one, ne_eq, not_true_eq_false, if_false]
  match rest, h with
  | [], _ => rfl
  | [_], _ => rfl
  | [_, _], _ => rfl
  | [_, _, _], _ => rfl
  | [_, _, _, _], _ => rfl
  | [_, _, _, _, _], _ => rfl
  | [_, _, _, _, _, _], h => simp at h
  | _ :: _ :: _ :: _ :: _ :: _ :: _ :: _, _ => rfl

/-- **only real dates**: whatever bytes are accepted, the resulting value reads back as an existing
calendar day (month 1–12, day within that month of that year), and it is the date the bytes spell. -/
theorem decodes_only_real_dates (bs : Bytes) (d : Date) (h : unmarshalBinary bs = .ok d) :
    ValidDate d.date.1 d.date.2.1 d.date.2.2 ∧
    ∃ b1 b2 b3 b4 m dd, bs = [1, b1, b2, b3, b4, m, dd] ∧ d.date = (be32 b1 b2 b3 b4, m, dd) := by
  unfold unmarshalBinary at h
  match bs, h with
  | [], h => simp at h
  | v :: rest, h =>
    simp only at h
    split at h
    · simp at h
    · rename_i hv
      simp only [version_is_one, ne_eq, Decidable.not_not] at hv
      subst hv
      match rest, h with
      | [b1, b2, b3, b4, m, dd], h =>
        simp only at h
        split at h
        · rename_i hvd
          simp only [Outcome.ok.injEq] at h
          subst h
          simp only [validDate, Bool.and_eq_true, decide_eq_true_eq] at hvd
          obtain ⟨⟨⟨hm1, hm12⟩, hd1⟩, hdd⟩ := hvd
          have hr := wrap32_range ((b1 * 16777216 + b2 * 65536 + b3 * 256 + b4 : Nat) : Int)
          have hdl := daysIn_le (wrap32 ((b1 * 16777216 + b2 * 65536 + b3 * 256 + b4 : Nat) : Int)) m
          have hdate : (⟨wrap32 (wrap32 ((b1 * 16777216 + b2 * 65536 + b3 * 256 + b4 : Nat) : Int) - 1), (m + 255) % 256, (dd + 255) % 256⟩ : Date).date
              = (be32 b1 b2 b3 b4, m, dd) := by
            unfold Date.date be32
            simp only
            rw [wrap32_succ_pred, wrap32_id hr]
            refine Prod.ext rfl (Prod.ext ?_ ?_) <;> simp only <;> omega
          rw [hdate]
          exact ⟨⟨hm1, hm12, by simp only; omega, by simp only [be32]; omega⟩, _, _, _, _, _, _, rfl, rfl⟩
        · simp at h
      | [], h => simp at h
      | [_], h => simp at h
      | [_, _], h => simp at h
      | [_, _, _], h => simp at h
      | [_, _, _, _], h => simp at h
      | [_, _, _, _, _], h => simp at h
      | _ :: _ :: _ :: _ :: _ :: _ :: _ :: _, h => simp at h

/-! non-vacuity: the hypotheses are met by concrete dates, and a non-date is refused -/
example : ValidDate 2024 2 29 ∧ (-999999999 : Int) ≤ 2024 ∧ (2024 : Int) ≤ 999999999 := by decide
example : unmarshalBinary (marshalBinary (new 2024 2 29)) = .ok (new 2024 2 29) := by decide
example : unmarshalBinary [1, 0, 0, 7, 230, 13, 32] = .err .invalidDate := by decide
example : unmarshalBinary (marshalBinary (new (-999999999) 12 31)) = .ok (new (-999999999) 12 31) := by decide

/-- **tie to the source**: `Date.MarshalBinary` and `Date.UnmarshalBinary` as translated from `date/date.go` on this
run — Go's `int32`/`uint8` arithmetic made explicit over the integers, every `if … return fmt.Errorf("…%w…", ErrX)` as
the sentinel's name, the final receiver fields as the result — compute the model's `marshalBinary` and
`unmarshalBinary` (whatever the receiver held before, for every byte string) -/
theorem binary_code_tie (d : Date) (dy dm dd : Int) (bs : Bytes) :
    Gen.date_MarshalBinary d.year d.month d.day = .ok ((marshalBinary d).map (fun b : Nat => (b : Int))) ∧
    Gen.date_UnmarshalBinary dy dm dd bs = CodeTies.encOut CodeTies.itriple (unmarshalBinary bs) :=
  ⟨CodeTies.marshalBinary_tie d, CodeTies.unmarshalBinary_tie dy dm dd bs⟩

example : Gen.date_UnmarshalBinary 0 0 0 [1, 0, 0, 7, 232, 2, 29] = .ok (2023, 1, 28) := rfl
example : Gen.date_UnmarshalBinary 0 0 0 [1, 0, 0, 7, 231, 2, 29] = .error "ErrInvalidDate" := rfl
example : Gen.date_UnmarshalBinary 0 0 0 [2, 0, 0, 7, 232, 2, 29] = .error "ErrUnsupportedVersion" := rfl

end U.Props.C11
