import UtilModel.Lemmas.DateBasics
import UtilModel.Lemmas.CodeTiesDate
/-!
# C15 — Date range filter contains exactly the inclusive interval
-/
namespace U.Props.C15
open U U.Date U.GoTime

/-- **construction fails exactly** when both bounds are given and the lower is after the upper —
for all stored values, no validity assumption — and then with the documented error. -/
theorem build_error_iff (fr to : Option Date) :
    (∃ e, filterFromTo fr to = .err e) ↔ ∃ f t, fr = some f ∧ to = some t ∧ f.after t = true := by
  constructor
  · rintro ⟨e, h⟩
    match fr, to, h with
    | some f, some t, h =>
      refine ⟨f, t, rfl, rfl, ?_⟩
      unfold filterFromTo at h
      simp only at h
      split at h
      · simp at h
      · split at h
        · assumption
        · simp at h
    | none, none, h => simp [filterFromTo] at h
    | none, some _, h => simp [filterFromTo] at h
    | some _, none, h => simp [filterFromTo] at h
  · rintro ⟨f, t, rfl, rfl, h⟩
    refine ⟨.invalidFromOrTo, ?_⟩
    unfold filterFromTo
    simp only
    have hne : f.equal t = false := by
      cases he : f.equal t
      · rfl
      · rw [equal_iff_eq] at he
        subst he
        unfold Date.after at h
        simp at h
    rw [hne, h]; simp

theorem build_error_class (fr to : Option Date) (e : Err) (h : filterFromTo fr to = .err e) :
    e = .invalidFromOrTo := by
  match fr, to, h with
  | some f, some t, h =>
    unfold filterFromTo at h
    simp only at h
    split at h
    · simp at h
    · split at h
      · simp at h; exact h.symm
      · simp at h
  | none, none, h => simp [filterFromTo] at h
  | none, some _, h => simp [filterFromTo] at h
  | some _, none, h => simp [filterFromTo] at h

/-- **membership**: a successfully built filter contains exactly the dates of the inclusive interval,
measured in day numbers, for real calendar dates. -/
theorem contains_iff (fr to : Option Date) (F : Filter) (x : Date)
    (hF : filterFromTo fr to = .ok F)
    (hfr : ∀ f, fr = some f → Proper f) (hto : ∀ t, to = some t → Proper t) (hx : Proper x) :
    F.contains x = true ↔
      (∀ f, fr = some f → f.ordinal ≤ x.ordinal) ∧ (∀ t, to = some t → x.ordinal ≤ t.ordinal) := by
  match fr, to, hF with
  | none, none, hF =>
    simp only [filterFromTo, Outcome.ok.injEq] at hF; subst hF
    simp [Filter.contains]
  | none, some t, hF =>
    simp only [filterFromTo, Outcome.ok.injEq] at hF; subst hF
    have ht := hto t rfl
    simp only [Filter.contains, Bool.or_eq_true, equal_iff ht hx, after_iff ht hx]
    simp only [reduceCtorEq, false_implies, implies_true, true_and, Option.some.injEq, forall_eq']
    omega
  | some f, none, hF =>
    simp only [filterFromTo, Outcome.ok.injEq] at hF; subst hF
    have hf := hfr f rfl
    simp only [Filter.contains, Bool.or_eq_true, equal_iff hf hx, before_iff hf hx]
    simp only [reduceCtorEq, false_implies, implies_true, and_true, Option.some.injEq, forall_eq']
    omega
  | some f, some t, hF =>
    have hf := hfr f rfl
    have ht := hto t rfl
    unfold filterFromTo at hF
    simp only at hF
    split at hF
    · rename_i heq
      simp only [Outcome.ok.injEq] at hF; subst hF
      have e1 := (equal_iff hf ht).mp heq
      simp only [Filter.contains, equal_iff hf hx]
      simp only [Option.some.injEq, forall_eq']
      omega
    · split at hF
      · simp at hF
      · rename_i hne hna
        simp only [Outcome.ok.injEq] at hF; subst hF
        simp only [Filter.contains, Bool.or_eq_true, Bool.and_eq_true, equal_iff hf hx, equal_iff ht hx,
          before_iff hf hx, after_iff ht hx]
        simp only [Option.some.injEq, forall_eq']
        have : ¬ (t.ordinal < f.ordinal) := by
          intro hlt; exact hna ((after_iff hf ht).mpr hlt)
        omega

/-! non-vacuity -/
example : Proper (new 2024 2 29) := proper_new (by decide) (by decide)
example : filterFromTo (some (new 2024 3 1)) (some (new 2024 2 29)) = .err .invalidFromOrTo := by decide
example : (filterFromTo (some (new 2024 2 28)) (some (new 2024 3 1))).map (·.contains (new 2024 2 29)) = .ok true := by decide

/-- **tie to the source**: the five `Contains` methods of `date/filter.go`, translated on this run into Boolean
formulas over the translated `Equal`/`Before`/`After` (`Gen.date_filter*_Contains`), compute `Filter.contains` -/
theorem contains_code_tie (F : Filter) (x : Date) :
    F.contains x = match F with
      | .no => Gen.date_filterNo_Contains x.year x.month x.day
      | .date d => Gen.date_filterDate_Contains d.year d.month d.day x.year x.month x.day
      | .from f => Gen.date_filterFrom_Contains f.year f.month f.day x.year x.month x.day
      | .to t => Gen.date_filterTo_Contains t.year t.month t.day x.year x.month x.day
      | .fromTo f t => Gen.date_filterFromTo_Contains f.year f.month f.day t.year t.month t.day x.year x.month x.day := by
  cases F
  · exact CodeTies.contains_no_tie x
  · exact CodeTies.contains_to_tie _ x
  · exact CodeTies.contains_from_tie _ x
  · exact CodeTies.contains_date_tie _ x
  · exact CodeTies.contains_fromTo_tie _ _ x

/-- **tie to the source**: the decision structure of `FilterFromTo` as translated on this run (`nil` bounds are
`none`; the result is the Go type of the filter built with its `Date` fields, or the sentinel the error wraps)
is the model's `filterFromTo` -/
theorem build_code_tie (fr to : Option Date) :
    CodeTies.encOut CodeTies.encFilter (filterFromTo fr to)
      = Gen.date_FilterFromTo fr.isNone (fr.getD zero).year (fr.getD zero).month (fr.getD zero).day
          to.isNone (to.getD zero).year (to.getD zero).month (to.getD zero).day :=
  CodeTies.filterFromTo_tie fr to

example : CodeTies.encOut CodeTies.encFilter (filterFromTo (some (new 2024 3 1)) (some (new 2024 2 29))) = .error "ErrInvalidFromOrTo" := rfl
example : CodeTies.encOut CodeTies.encFilter (filterFromTo none (some ⟨2023, 1, 28⟩)) = .ok ("filterTo", [(2023, 1, 28)]) := rfl

end U.Props.C15
