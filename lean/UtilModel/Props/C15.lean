import UtilModel.Lemmas.DateBasics
/-!
# C15 — Date range filter contains exactly the inclusive interval
-/
namespace U.Props.C15
open U U.Date U.GoTime

/-- **construction fails exactly** when both bounds are given and the lower is after the upper —
for all stored values, no validity assumption — and then with the documented error. -/
theorem build_error_iff (fr to : Option Date) :
    (∃ e, filterFromTo fr to = .err e) ↔ ∃ f t, fr = some f ∧ to = some t ∧ f.after t = true := by
  constructor
  · rintro ⟨e, h⟩
    match fr, to, h with
    | some f, some t, h =>
      refine ⟨f, t, rfl, rfl, ?_⟩
      unfold filterFromTo at h
      simp only at h
      split at h
      · simp at h
      · split at h
        · assumption
        · simp at h
    | none, none, h => simp [filterFromTo] at h
    | none, some _, h => simp [filterFromTo] at h
    | some _, none, h => simp [filterFromTo] at h
  · rintro ⟨f, t, rfl, rfl, h⟩
    refine ⟨.invalidFromOrTo, ?_⟩
    unfold filterFromTo
    simp only
    have hne : f.equal t = false := by
      cases he : f.equal t
      · rfl
      · rw [equal_iff_eq] at he
        subst he
        unfold Date.after at h
        simp at h
    rw [hne, h]; simp

theorem build_error_class (fr to : Option Date) (e : Err) (h : filterFromTo fr to = .err e) :
    e = .invalidFromOrTo := by
  match fr, to, h with
  | some f, some t, h =>
    unfold filterFromTo at h
    simp only at h
    split at h
    · simp at h
    · split at h
      · simp at h; exact h.symm
      · simp at h
  | none, none, h => simp [filterFromTo] at h
  | none, some _, h => simp [filterFromTo] at h
  | some _, none, h => simp [filterFromTo] at h

/-- **membership**: a successfully built filter contains exactly the dates of the inclusive interval,
measured in day numbers, for real calendar dates. -/
theorem contains_iff (fr to : Option Date) (F : Filter) (x : Date)
    (hF : filterFromTo fr to = .ok F)
    (hfr : ∀ f, fr = some f → Proper f) (hto : ∀ t, to = some t → Proper t) (hx : Proper x) :
    F.contains x = true ↔
      (∀ f, fr = some f → f.ordinal ≤ x.ordinal) ∧ (∀ t, to = some t → x.ordinal ≤ t.ordinal) := by
  match fr, to, hF with
  | none, none, hF =>
    simp only [filterFromTo, Outcome.ok.injEq] at hF; subst hF
    simp [Filter.contains]
  | none, some t, hF =>
    simp only [filterFromTo, Outcome.ok.injEq] at hF; subst hF
    have ht := hto t rfl
    simp only [Filter.contains, Bool.or_eq_true, equal_iff ht hx, after_iff ht hx]
    simp only [reduceCtorEq, false_implies, implies_true, true_and, Option.some.injEq, forall_eq']
    omega
  | some f, none, hF =>
    simp only [filterFromTo, Outcome.ok.injEq] at hF; subst hF
    have hf := hfr f rfl
    simp only [Filter.contains, Bool.or_eq_true, equal_iff hf hx, before_iff hf hx]
    simp only [reduceCtorEq, false_implies, implies_true, and_true, Option.some.injEq, forall_eq']
    omega
  | some f, some t, hF =>
    have hf := hfr f rfl
    have ht := hto t rfl
    unfold filterFromTo at hF
    simp only at hF
    split at hF
    · rename_i heq
      simp only [Outcome.ok.injEq] at hF; subst hF
      have e1 := (equal_iff hf ht).mp heq
      simp only [Filter.contains, equal_iff hf hx]
      simp only [Option.some.injEq, forall_eq']
      omega
    · split at hF
      · simp at hF
      · rename_i hne hna
        simp only [Outcome.ok.injEq] at hF; subst hF
        simp only [Filter.contains, Bool.or_eq_true, Bool.and_eq_true, equal_iff hf hx, equal_iff ht hx,
          before_iff hf hx, after_iff ht hx]
        simp only [Option.some.injEq, forall_eq']
        have : ¬ (t.ordinal < f.ordinal) := by
          intro hlt; exact hna ((after_iff hf ht).mpr hlt)
        omega

/-! non-vacuity -/
example : Proper (new 2024 2 29) := proper_new (by decide) (by decide)
example : filterFromTo (some (new 2024 3 1)) (some (new 2024 2 29)) = .err .invalidFromOrTo := by decide
example : (filterFromTo (some (new 2024 2 28)) (some (new 2024 3 1))).map (·.contains (new 2024 2 29)) = .ok true := by decide

end U.Props.C15
