import UtilModel.Lemmas.UUText
import UtilModel.Lemmas.CodeTiesUU
/-!
# C05 — UUID text form is exact, strict and round-trips

`UU.format [] i urn` models `DefaultFormatter(nil, id, f)` (`urn` ⇔ `f & FormatURN != 0`);
`UU.parse maxLen dURN dUpper s` models `DefaultParser(input, r)` with `MaxInputLength = maxLen`,
`dURN` ⇔ `r & RuleDisableURN != 0`, `dUpper` ⇔ `r & RuleDisableUpperCaseDigits != 0`.
An ID is two arbitrary 64-bit words; all theorems are for every ID and every byte string.

Vocabulary (defined in `Lemmas/UU.lean`, `Lemmas/UUText.lean`, restated below by `rfl` theorems):
`nibble i k` — `k`-th hex digit (0 most significant … 31) of the 128-bit big-endian value `Higher‖Lower`;
`pos k` — text position of digit `k` in the 8-4-4-4-12 layout; `lowerHex`/`upperHex` — case change of the
letters `A`–`F`/`a`–`f` only; `URNCasing p` — `p` is `urn` in any of its 8 casings followed by exactly
`:uuid:`; `normalise s` — drop the nine prefix bytes of a 45-byte input and lower-case `A`–`F`;
`HexByte dUpper c` — `c` is `0`–`9`, `a`–`f`, or (unless `dUpper`) `A`–`F`;
`Framed dURN s off` — `s` has length 36 (`off = 0`) or length 45 with an accepted prefix (`off = 9`).
A rejected input has outcome `.err e`, which carries no ID: the Go function returns the zero `ID{}` on every
error path, which the correspondence run checks.

All proofs are kernel-only (`propext`, `Classical.choice`, `Quot.sound`); no `bv_decide`.
-/
namespace U.Props.C05
open U U.UU

/-! ## the specification vocabulary, spelled out -/

theorem nibble_spec (i : ID) (k : Nat) :
    nibble i k = (i.hi.toNat * 2 ^ 64 + i.lo.toNat) / 16 ^ (31 - k) % 16 := rfl

theorem pos_spec (k : Nat) :
    pos k = if k < 8 then k else if k < 12 then k + 1 else if k < 16 then k + 2 else if k < 20 then k + 3
      else k + 4 := rfl

theorem normalise_spec (s : Bytes) :
    normalise s = (if s.length = 45 then s.drop 9 else s).map
      (fun c => if 65 ≤ c ∧ c ≤ 70 then c + 32 else c) := rfl

theorem urnCasing_spec (p : Bytes) :
    URNCasing p ↔ ∃ c0 c1 c2, p = [c0, c1, c2, 58, 117, 117, 105, 100, 58] ∧
      (c0 = 117 ∨ c0 = 85) ∧ (c1 = 114 ∨ c1 = 82) ∧ (c2 = 110 ∨ c2 = 78) := Iff.rfl

/-! ## formatting -/

/-- **layout**: 36 bytes, `-` at 8, 13, 18, 23, and at the position of digit `k` the lower-case hex digit of
the `k`-th nibble of the big-endian 128-bit value -/
theorem layout (i : ID) :
    (format [] i false).length = 36 ∧
    (∀ p, p ∈ [8, 13, 18, 23] → (format [] i false)[p]? = some 45) ∧
    (∀ k, k < 32 → (format [] i false)[pos k]? = some (hexDigit (nibble i k))) := by
  rw [format_eq_layout]
  exact ⟨rfl, fun p hp => layoutOf_hyphen _ p hp, fun k hk => layoutOf_digit _ k hk⟩

/-- the digit bytes are `0`–`9`, `a`–`f` only -/
theorem layout_lower (i : ID) (c : Nat) (hc : c ∈ format [] i false) :
    c = 45 ∨ (48 ≤ c ∧ c ≤ 57) ∨ (97 ≤ c ∧ c ≤ 102) := by
  rw [format_eq_layout] at hc
  exact layoutOf_mem _ (nibble_lt i) c hc

/-- **URN form** = `urn:uuid:` followed by the same 36 bytes (45 in all); `ID.URN()` is that text -/
theorem layout_urn (i : ID) :
    format [] i true = Gen.uu_URNPrefix ++ format [] i false ∧ (format [] i true).length = 45 ∧
    i.urn = format [] i true := by
  refine ⟨format_urn i, ?_, ?_⟩
  · rw [format_urn, List.length_append, format_length]; rfl
  · rw [format_urn]
    simp only [ID.urn, format, Bool.false_eq_true, if_false, List.nil_append, List.append_assoc]

/-- `Gen.uu_starts` are the 16 byte-pair offsets in order, `Gen.uu_hyphens` the four hyphen positions -/
theorem starts_shape :
    Gen.uu_starts = (List.range 16).map (fun j => pos (2 * j)) ∧
    (∀ j, j < 16 → pos (2 * j + 1) = pos (2 * j) + 1) ∧
    Gen.uu_hyphens = [8, 13, 18, 23] ∧ Gen.uu_IDLength = 36 ∧
    Gen.uu_URNPrefix = [117, 114, 110, 58, 117, 117, 105, 100, 58] := by
  refine ⟨by decide, ?_, rfl, rfl, rfl⟩
  intro j hj
  unfold pos
  repeat' split
  all_goals omega

/-! ## round trip -/

/-- **round trip**: the formatted text (plain or URN form) parses back to the same ID, whenever the
length limit allows it and the URN form is not disabled -/
theorem roundtrip (maxLen : Nat) (dURN dUpper : Bool) (i : ID) (urn : Bool)
    (hlen : maxLen = 0 ∨ (format [] i urn).length ≤ maxLen) (hurn : urn = true → dURN = false) :
    parse maxLen dURN dUpper (format [] i urn) = .ok i := by
  rw [parse_ok_iff]
  refine ⟨hlen, ?_⟩
  cases urn with
  | false => exact ⟨[], _, rfl, Or.inl rfl, map_lowerHex_format i, fun _ => rfl⟩
  | true =>
    exact ⟨Gen.uu_URNPrefix, _, format_urn i,
      Or.inr ⟨hurn rfl, 117, 114, 110, rfl, Or.inl rfl, Or.inl rfl, Or.inl rfl⟩,
      map_lowerHex_format i, fun _ => rfl⟩

/-- **round trip, any case**: with any accepted prefix (`urn` in each of its 8 casings) or none, and with the
hex letters upper-cased when upper case is not disabled -/
theorem roundtrip_cases (maxLen : Nat) (dURN dUpper : Bool) (i : ID) (pre : Bytes) (upper : Bool)
    (hpre : pre = [] ∨ (dURN = false ∧ URNCasing pre)) (hup : upper = true → dUpper = false)
    (hlen : maxLen = 0 ∨ pre.length + 36 ≤ maxLen) :
    parse maxLen dURN dUpper
      (pre ++ if upper then (format [] i false).map upperHex else format [] i false) = .ok i := by
  rw [parse_ok_iff]
  refine ⟨?_, pre, _, rfl, hpre, ?_, ?_⟩
  · rw [List.length_append]
    cases upper <;> simp only [Bool.false_eq_true, if_false, if_true, List.length_map, format_length] <;> exact hlen
  · cases upper
    · exact map_lowerHex_format i
    · exact map_lowerHex_upperHex_format i
  · intro hd
    cases upper
    · rfl
    · rw [hup rfl] at hd; exact absurd hd (by decide)

/-! ## strictness -/

/-- **acceptance, exactly**: `parse` returns `i` iff the input respects the limit and is an optional
accepted URN prefix followed by 36 bytes which, with `A`–`F` lower-cased, are the canonical text of `i`
— verbatim so when upper-case digits are disabled. (Mixed-case digits are covered.) -/
theorem accepts_iff (maxLen : Nat) (dURN dUpper : Bool) (s : Bytes) (i : ID) :
    parse maxLen dURN dUpper s = .ok i ↔
      (maxLen = 0 ∨ s.length ≤ maxLen) ∧
      ∃ pre body, s = pre ++ body ∧ (pre = [] ∨ (dURN = false ∧ URNCasing pre)) ∧
        body.map lowerHex = format [] i false ∧ (dUpper = true → body = format [] i false) :=
  parse_ok_iff maxLen dURN dUpper s i

/-- **strict**: an accepted input, once the prefix is stripped and `A`–`F` lower-cased, is exactly the
canonical text of the returned ID — so nothing but the texts of `roundtrip_cases` (and their mixed-case
variants) is accepted, and the ID is determined by the text -/
theorem strict (maxLen : Nat) (dURN dUpper : Bool) (s : Bytes) (i : ID)
    (h : parse maxLen dURN dUpper s = .ok i) : normalise s = format [] i false := by
  obtain ⟨_, pre, body, rfl, hpre, hm, _⟩ := (parse_ok_iff _ _ _ _ _).mp h
  have hb : body.length = 36 := by
    have := congrArg List.length hm
    rwa [List.length_map, format_length] at this
  unfold normalise
  rcases hpre with rfl | ⟨_, hc⟩
  · rw [if_neg (by simp only [List.nil_append]; omega)]
    exact hm
  · have h9 := hc.length
    rw [if_pos (by rw [List.length_append]; omega), List.drop_left' h9]
    exact hm

/-- what else an accepted input satisfies: length 36, or 45 with the URN form enabled and an accepted
prefix; and no upper-case digit when those are disabled -/
theorem strict_frame (maxLen : Nat) (dURN dUpper : Bool) (s : Bytes) (i : ID)
    (h : parse maxLen dURN dUpper s = .ok i) :
    (maxLen = 0 ∨ s.length ≤ maxLen) ∧
    (s.length = 36 ∨ (s.length = 45 ∧ dURN = false ∧ URNCasing (s.take 9))) ∧
    (dUpper = true → (if s.length = 45 then s.drop 9 else s) = format [] i false) := by
  obtain ⟨hlen, pre, body, rfl, hpre, hm, hu⟩ := (parse_ok_iff _ _ _ _ _).mp h
  have hb : body.length = 36 := by
    have := congrArg List.length hm
    rwa [List.length_map, format_length] at this
  refine ⟨hlen, ?_, ?_⟩
  · rcases hpre with rfl | ⟨hd, hc⟩
    · left; simpa using hb
    · right
      have h9 := hc.length
      exact ⟨by rw [List.length_append]; omega, hd, by rw [List.take_left' h9]; exact hc⟩
  · intro hd
    rcases hpre with rfl | ⟨_, hc⟩
    · rw [if_neg (by simp only [List.nil_append]; omega)]; exact hu hd
    · have h9 := hc.length
      rw [if_pos (by rw [List.length_append]; omega), List.drop_left' h9]; exact hu hd

/-! ## rejections, each with its typed error -/

/-- over the limit (limit non-zero): `tooLong`, before anything else -/
theorem too_long (maxLen : Nat) (dURN dUpper : Bool) (s : Bytes) (h0 : maxLen ≠ 0) (h : s.length > maxLen) :
    parse maxLen dURN dUpper s = .err .tooLong := by
  rw [parse_eq, if_pos ⟨h0, h⟩]

/-- a length other than 36 or 45: `invalid` -/
theorem bad_length (maxLen : Nat) (dURN dUpper : Bool) (s : Bytes) (hlen : maxLen = 0 ∨ s.length ≤ maxLen)
    (h36 : s.length ≠ 36) (h45 : s.length ≠ 45) : parse maxLen dURN dUpper s = .err .invalid := by
  rw [parse_eq, if_neg (by omega), if_neg h36, if_neg h45]

/-- a 45-byte input when the rule disables the URN form: `urnDisabled` (whatever the bytes are) -/
theorem urn_disabled (maxLen : Nat) (dUpper : Bool) (s : Bytes) (hlen : maxLen = 0 ∨ s.length ≤ maxLen)
    (h45 : s.length = 45) : parse maxLen true dUpper s = .err .urnDisabled := by
  rw [parse_eq, if_neg (by omega), if_neg (by omega), if_pos h45, if_pos rfl]

/-- a 45-byte input whose first nine bytes are not an accepted prefix: `invalid` -/
theorem bad_prefix (maxLen : Nat) (dUpper : Bool) (s : Bytes) (hlen : maxLen = 0 ∨ s.length ≤ maxLen)
    (h45 : s.length = 45) (hp : ¬ URNCasing (s.take 9)) : parse maxLen false dUpper s = .err .invalid := by
  rw [parse_eq, if_neg (by omega), if_neg (by omega), if_pos h45]
  simp only [Bool.false_eq_true, if_false]
  rcases hasURNPrefix_spec s (by omega) with ⟨_, hc⟩ | ⟨h, _⟩
  · exact absurd hc hp
  · rw [h]

/-- a byte other than `-` at one of the four hyphen positions (after the offset): `invalid` -/
theorem bad_hyphen (maxLen : Nat) (dURN dUpper : Bool) (s : Bytes) (off : Nat)
    (hlen : maxLen = 0 ∨ s.length ≤ maxLen) (hf : Framed dURN s off) (p : Nat) (hp : p ∈ [8, 13, 18, 23])
    (hbad : s[off + p]? ≠ some 45) : parse maxLen dURN dUpper s = .err .invalid := by
  rw [parse_framed _ _ _ _ off hlen hf]
  exact core_bad_hyphen s off _ hf.length_le p hp hbad

/-- hyphens in place, and the first byte (in text order) at a digit position that is not an allowed hex
digit is `b`: `invalidDigit b` -/
theorem bad_digit (maxLen : Nat) (dURN dUpper : Bool) (s : Bytes) (off : Nat)
    (hlen : maxLen = 0 ∨ s.length ≤ maxLen) (hf : Framed dURN s off)
    (hyph : ∀ p, p ∈ [8, 13, 18, 23] → s[off + p]? = some 45) (k b : Nat) (hk : k < 32)
    (hgood : ∀ k', k' < k → ∃ c, s[off + pos k']? = some c ∧ HexByte dUpper c)
    (hb : s[off + pos k]? = some b) (hbad : ¬ HexByte dUpper b) :
    parse maxLen dURN dUpper s = .err (.invalidDigit b) := by
  rw [parse_framed _ _ _ _ off hlen hf]
  refine core_first_bad s off _ hf.length_le hyph k b hk ?_ hb ((parseDigit_eq_none_iff b dUpper).mpr hbad)
  intro k' hk'
  obtain ⟨c, hc, hx⟩ := hgood k' hk'
  obtain ⟨v, hv⟩ := parseDigit_isSome_of_hexByte c dUpper hx
  exact ⟨c, v, hc, hv⟩

/-- **no other outcome**: the parser never panics, and every error is one of the four typed errors, an
`invalidDigit b` naming a byte of the input that is not an allowed hex digit -/
theorem never_panic (maxLen : Nat) (dURN dUpper : Bool) (s : Bytes) : parse maxLen dURN dUpper s ≠ .panic :=
  parse_ne_panic maxLen dURN dUpper s

theorem error_classes (maxLen : Nat) (dURN dUpper : Bool) (s : Bytes) (e : Err)
    (h : parse maxLen dURN dUpper s = .err e) :
    e = .tooLong ∨ e = .invalid ∨ e = .urnDisabled ∨ ∃ b, e = .invalidDigit b ∧ b ∈ s ∧ ¬ HexByte dUpper b :=
  parse_err_class maxLen dURN dUpper s e h

/-! ## accessors -/

/-- **version** = the four bits RFC 4122 assigns: hex digit 12 (text position 14) -/
theorem version_field (i : ID) : i.version = nibble i 12 ∧ pos 12 = 14 := ⟨version_nibble i, rfl⟩

/-- **variant** = number of leading one bits (capped at 3) of hex digit 16 (text position 19):
`0xxx` ↦ 0, `10xx` ↦ 1 (RFC 4122), `110x` ↦ 2, `111x` ↦ 3 -/
theorem variant_field (i : ID) :
    i.variant = (if nibble i 16 < 8 then 0 else if nibble i 16 < 12 then 1 else if nibble i 16 < 14 then 2 else 3)
    ∧ pos 16 = 19 := ⟨variant_nibble i, rfl⟩

/-! ## non-vacuity (123e4567-e89b-12d3-a456-426614174000) -/

private def ex : ID := ⟨0x123e4567e89b12d3#64, 0xa456426614174000#64⟩
private def exText : Bytes :=
  [49,50,51,101,52,53,54,55,45,101,56,57,98,45,49,50,100,51,45,97,52,53,54,45,52,50,54,54,49,52,49,55,52,48,48,48]
private def exUpper : Bytes :=
  [49,50,51,69,52,53,54,55,45,69,56,57,66,45,49,50,68,51,45,65,52,53,54,45,52,50,54,54,49,52,49,55,52,48,48,48]

example : format [] ex false = exText := by decide
example : format [] ex true = [117,114,110,58,117,117,105,100,58] ++ exText := by decide
example : parse 45 false false exText = .ok ex := by decide
example : parse 45 false false exUpper = .ok ex := by decide
example : parse 45 false true exUpper = .err (.invalidDigit 69) := by decide
example : parse 45 false false ([85,82,78,58,117,117,105,100,58] ++ exText) = .ok ex := by decide   -- URN:uuid:
example : parse 45 false false ([117,114,110,58,85,85,73,68,58] ++ exText) = .err .invalid := by decide  -- urn:UUID:
example : parse 45 true false ([117,114,110,58,117,117,105,100,58] ++ exText) = .err .urnDisabled := by decide
example : parse 40 false false ([117,114,110,58,117,117,105,100,58] ++ exText) = .err .tooLong := by decide
example : parse 45 false false (exText.take 35) = .err .invalid := by decide
example : parse 45 false false (exText.set 8 48) = .err .invalid := by decide          -- `0` for the first hyphen
example : parse 45 false false (exText.set 9 103) = .err (.invalidDigit 103) := by decide   -- `g`
example : ex.version = 1 ∧ ex.variant = 1 := by decide
example : normalise ([85,82,78,58,117,117,105,100,58] ++ exUpper) = exText := by decide

/-- **tie to the source**: `parseDigit` as translated from `uu/parse.go` on this run is the model's digit decoder -/
theorem parseDigit_code_tie (c : Nat) (au : Bool) :
    UU.parseDigit c au = (if (Gen.uu_parseDigit c au).2 then some (Gen.uu_parseDigit c au).1 else none) :=
  CodeTies.parseDigit_tie c au

/-- **tie to the source**: `ID.Version` and `ID.Variant` as translated from `uu/id.go` on this run (masks and shifts
of the two words as naturals below 2^64) are the model's accessors -/
theorem accessors_code_tie (i : ID) :
    i.version = Gen.uu_Version i.hi.toNat i.lo.toNat ∧ i.variant = Gen.uu_Variant i.hi.toNat i.lo.toNat :=
  ⟨CodeTies.version_tie i, CodeTies.variant_tie i⟩

theorem paths_agree (i : ID) :
    marshalText i = format [] i false ∧ UU.toString i = format [] i false ∧
    formatVerb i 115 = format [] i false ∧ formatVerb i 118 = format [] i false ∧ formatVerb i 117 = format [] i true := by
  have e0 : isURN 0 = false := by decide
  have es : isURN (flagsByVerb 115) = false := by decide
  have ev : isURN (flagsByVerb 118) = false := by decide
  have eu : isURN (flagsByVerb 117) = true := by decide
  simp only [marshalText, UU.toString, formatVerb, e0, es, ev, eu, and_self]

end U.Props.C05
