import UtilModel.Lemmas.DateText
import UtilModel.Lemmas.SizeLimit
import UtilModel.Model.Sem
import UtilModel.Model.Size
import UtilModel.Model.UU
import UtilModel.Model.Roman
import UtilModel.Props.C10
/-!
# C18 — Parsers are total and enforce the configured input limit first

*Totality.* Every Go index expression that is not guarded syntactically is modelled with `l[i]?`
and maps `none` to `Outcome.panic`; the theorems below show `panic` unreachable for the date and
sem parsers and `Date.unmarshalBinary` (roman: `C10.no_panic`, uu: `C05.no_panic`). All model
functions are total Lean functions, so termination of every loop (the JSON member loop and the
skip loop consume at least one token per iteration, the comparator recurses on shorter lists) is
checked by Lean's termination checker when the model is compiled.
*Limit.* For each package: the result is the input-too-long error **iff** the limit is non-zero and
the input is longer — so it is checked first, nothing within the limit is rejected for its length,
and limit 0 switches it off. That the error *message* does not reproduce the input, and allocation
behaviour, are checked on the implementation only.
-/
namespace U.Props.C18
open U

/-! ## no panic -/

theorem date_no_panic (maxLen : Nat) (db : Bool) (s : Bytes) : Date.parse maxLen db s ≠ .panic := by
  unfold Date.parse
  simp only
  split
  · simp
  · split
    · simp
    · split
      · simp
      · rename_i ys ms ds hshape
        obtain ⟨m1, m2, d1, d2, a, b, rfl, rfl, hys, h4, h9, hm, hd, hs⟩ := Date.shape_sound s ys _ _ hshape
        have hl : 8 ≤ s.length := by rw [hs]; simp; omega
        have e3 : s[s.length - 3]? = some (s[s.length - 3]'(by omega)) := List.getElem?_eq_getElem (by omega)
        have e5 : s[s.length - 5]? = some (s[s.length - 5]'(by omega)) := List.getElem?_eq_getElem (by omega)
        have e6 : s[s.length - 6]? = some (s[s.length - 6]'(by omega)) := List.getElem?_eq_getElem (by omega)
        rw [e3, e5, e6]
        simp only
        repeat' split
        all_goals simp

theorem date_unbin_no_panic (bs : Bytes) : Date.unmarshalBinary bs ≠ .panic := by
  intro h
  unfold Date.unmarshalBinary at h
  split at h
  · simp at h
  · split at h
    · simp at h
    · split at h
      · simp only at h
        split at h <;> simp at h
      · simp at h

theorem sem_no_panic (maxLen : Nat) (aV aT : Bool) (s : Bytes) : Sem.unmarshalText maxLen aV aT s ≠ .panic := by
  intro h
  unfold Sem.unmarshalText at h
  simp only at h
  split at h
  · simp at h
  · split at h
    · simp at h
    · rename_i hne _
      cases s with
      | nil => simp at hne
      | cons c t =>
        simp only [List.getElem?_cons_zero] at h
        split at h
        · simp at h
        · rename_i heq
          split at heq <;> split at heq <;> simp at heq
        · split at h
          · simp at h
          · split at h
            · simp at h
            · split at h
              · simp at h
              · split at h <;> simp at h

/-- roman: proved with the grammar characterisation (C10) -/
theorem roman_no_panic (maxLen : Nat) (de : Bool) (s : Bytes) :
    Roman.parse maxLen de s ≠ .panic ∧ Roman.valid maxLen de s ≠ .panic := C10.no_panic maxLen de s

/-- the comparator never panics: it is a total function into the integers (its model has no partial
look-up at all; fix F5 removed the rune-slice indexing) -/
theorem sem_compare_total (a b : Bytes) : ∃ r : Int, Sem.comparePre a b = r := ⟨_, rfl⟩


/-! ## the input limit: checked first, only then, off at zero -/

theorem date_limit (maxLen : Nat) (db : Bool) (s : Bytes) :
    Date.parse maxLen db s = .err .tooLong ↔ maxLen ≠ 0 ∧ s.length > maxLen := by
  constructor
  · intro h
    unfold Date.parse at h
    simp only at h
    split at h
    · simp at h
    · split at h
      · assumption
      · exfalso
        split at h
        · simp at h
        · split at h
          · try simp only at h
            repeat' (split at h)
            all_goals (try simp at h)
          · simp at h
  · intro ⟨h0, hl⟩
    unfold Date.parse
    simp only
    rw [if_neg (by omega), if_pos ⟨h0, hl⟩]

theorem roman_sumGroups_ne (gs : List (Nat × Nat × Nat)) (ps : List Bytes) (acc : Nat) (e : Err)
    (h : Roman.sumGroups gs ps acc = .err e) : False := by
  induction gs generalizing ps acc with
  | nil => simp [Roman.sumGroups] at h
  | cons g gs ih =>
    cases ps with
    | nil => simp [Roman.sumGroups] at h
    | cons p ps =>
      simp only [Roman.sumGroups] at h
      split at h
      · exact ih _ _ h
      · rename_i e' he
        unfold Roman.parseGroup at he
        simp only at he
        repeat' (split at he)
        all_goals simp at he
      · simp at h

theorem roman_limit (maxLen : Nat) (de : Bool) (s : Bytes) :
    Roman.parse maxLen de s = .err .tooLong ↔ maxLen ≠ 0 ∧ s.length > maxLen := by
  constructor
  · intro h
    unfold Roman.parse Roman.checkInputLength at h
    simp only at h
    split at h
    · rename_i e he
      simp only [Outcome.err.injEq] at h
      subst h
      split at he
      · split at he <;> simp at he
      · split at he
        · assumption
        · simp at he
    · simp at h
    · simp at h
    · exfalso
      split at h
      · simp at h
      · unfold Outcome.map at h
        split at h
        · simp at h
        · rename_i e he
          exact roman_sumGroups_ne _ _ _ _ he
        · simp at h
  · intro ⟨h0, hl⟩
    unfold Roman.parse Roman.checkInputLength
    simp only
    rw [if_neg (by omega), if_pos ⟨h0, hl⟩]

theorem roman_valid_limit (maxLen : Nat) (de : Bool) (s : Bytes) :
    Roman.valid maxLen de s = .err .tooLong ↔ maxLen ≠ 0 ∧ s.length > maxLen := by
  constructor
  · intro h
    unfold Roman.valid Roman.checkInputLength at h
    simp only at h
    split at h
    · rename_i e he
      simp only [Outcome.err.injEq] at h
      subst h
      split at he
      · split at he <;> simp at he
      · split at he
        · assumption
        · simp at he
    · simp at h
    · simp at h
    · split at h <;> simp at h
  · intro ⟨h0, hl⟩
    unfold Roman.valid Roman.checkInputLength
    simp only
    rw [if_neg (by omega), if_pos ⟨h0, hl⟩]

theorem sem_limit (maxLen : Nat) (aV aT : Bool) (s : Bytes) :
    Sem.unmarshalText maxLen aV aT s = .err .tooLong ↔ maxLen ≠ 0 ∧ s.length > maxLen := by
  constructor
  · intro h
    unfold Sem.unmarshalText at h
    simp only at h
    split at h
    · simp at h
    · split at h
      · assumption
      · exfalso
        split at h
        · simp at h
        · split at h
          · rename_i e heq
            simp only [Outcome.err.injEq] at h
            subst h
            split at heq <;> split at heq <;> simp at heq
          · simp at h
          · split at h
            · simp at h
            · repeat' (split at h)
              all_goals simp at h
  · intro ⟨h0, hl⟩
    unfold Sem.unmarshalText
    simp only
    rw [if_neg (by omega), if_pos ⟨h0, hl⟩]

theorem uu_limit_first (maxLen : Nat) (dU dC : Bool) (s : Bytes) (h0 : maxLen ≠ 0) (hl : s.length > maxLen) :
    UU.parse maxLen dU dC s = .err .tooLong := by
  unfold UU.parse
  simp only
  rw [if_pos ⟨h0, hl⟩]

theorem size_limit (maxLen maxKeys : Nat) (r : Size.Rule) (s : Bytes) :
    Size.parse maxLen maxKeys r s = .err .tooLong ↔ maxLen ≠ 0 ∧ s.length > maxLen :=
  Size.parse_limit maxLen maxKeys r s

theorem uu_digits_ne_tooLong (s : Bytes) (off : Nat) (au : Bool) (st : List Nat) (i : Nat) (n : BitVec 64 × BitVec 64)
    (h : UU.digits s off au st i n = .err .tooLong) : False := by
  induction st generalizing i n with
  | nil => simp [UU.digits] at h
  | cons a st ih =>
    simp only [UU.digits] at h
    split at h
    · split at h
      · simp at h
      · split at h
        · simp at h
        · exact ih _ _ h
    · simp at h

theorem uu_limit (maxLen : Nat) (dU dC : Bool) (s : Bytes) :
    UU.parse maxLen dU dC s = .err .tooLong ↔ maxLen ≠ 0 ∧ s.length > maxLen := by
  constructor
  · intro h
    unfold UU.parse at h
    simp only at h
    split at h
    · assumption
    · exfalso
      split at h
      · rename_i e he
        simp only [Outcome.err.injEq] at h
        subst h
        split at he
        · simp at he
        · split at he
          · split at he
            · simp at he
            · split at he
              · simp at he
              · simp at he
              · rename_i e' he'
                simp only [Outcome.err.injEq] at he
                subst he
                unfold UU.hasURNPrefix at he'
                split at he'
                · split at he'
                  · simp at he'
                  · split at he'
                    · simp at he'
                    · split at he'
                      · simp at he'
                      · -- the `go` loop returns ok or panic only
                        have key : ∀ k want, UU.hasURNPrefix.go s k want ≠ .err .tooLong := by
                          intro k want
                          induction want generalizing k with
                          | nil => simp [UU.hasURNPrefix.go]
                          | cons w ws ihw =>
                            simp only [UU.hasURNPrefix.go]
                            split
                            · simp
                            · split
                              · simp
                              · exact ihw _
                        exact key _ _ he'
                · simp at he'
              · simp at he
          · simp at he
      · simp at h
      · split at h
        · split at h
          · simp at h
          · split at h
            · simp at h
            · rename_i e he
              simp only [Outcome.err.injEq] at h
              subst h
              exact uu_digits_ne_tooLong _ _ _ _ _ _ he
            · simp at h
        · simp at h
  · intro ⟨h0, hl⟩
    exact uu_limit_first maxLen dU dC s h0 hl

/-- limit 0 removes the limit, in every package -/
theorem limit_zero_off (s : Bytes) :
    (∀ db, Date.parse 0 db s ≠ .err .tooLong) ∧ (∀ de, Roman.parse 0 de s ≠ .err .tooLong) ∧
    (∀ aV aT, Sem.unmarshalText 0 aV aT s ≠ .err .tooLong) ∧ (∀ dU dC, UU.parse 0 dU dC s ≠ .err .tooLong) ∧
    (∀ mk r, Size.parse 0 mk r s ≠ .err .tooLong) := by
  refine ⟨?_, ?_, ?_, ?_, ?_⟩
  · intro db h; exact ((date_limit 0 db s).mp h).1 rfl
  · intro de h; exact ((roman_limit 0 de s).mp h).1 rfl
  · intro aV aT h; exact ((sem_limit 0 aV aT s).mp h).1 rfl
  · intro dU dC h; exact ((uu_limit 0 dU dC s).mp h).1 rfl
  · intro mk r h; exact ((size_limit 0 mk r s).mp h).1 rfl

/-- **the guard in the source** (structure facts regenerated from the library's source on this run,
`tools/extract/structure.go`): in each package the function every public parser entry point funnels its input
through (`DefaultParser`; `sem`: `unmarshalText`, reached directly by `DefaultParser`, `Parse`, `ParseVersion`,
`ParseTag`; `roman`: `checkInputLength`, called first by `DefaultParser` and by `Valid`) begins — after constant
declarations, taking the input's length and returning on the empty input — with
`if MaxInputLength != 0 && len(input) > MaxInputLength { return … ErrInputTooLong … }` (operands in either order,
`a > b` or `b < a`, the length bound in the `if`'s init or before it, or the two tests as nested `if`s), whose body
does not read the input. -/
theorem limit_guard_source_facts :
    Gen.date_limitCheckedFirst = true ∧ Gen.roman_limitCheckedFirst = true ∧ Gen.roman_Valid_limitCheckedFirst = true ∧
    Gen.sem_limitCheckedFirst = true ∧ Gen.size_limitCheckedFirst = true ∧ Gen.uu_limitCheckedFirst = true := by decide

/-! non-vacuity -/
example : Date.parse 10 false (List.replicate 11 48) = .err .tooLong := by decide
example : Sem.unmarshalText 4 true true [49, 46, 48, 46, 48] = .err .tooLong := by decide
example : Sem.unmarshalText 0 true true [49, 46, 48, 46, 48] = .ok ⟨1, 0, 0, [], []⟩ := by decide


end U.Props.C18
