import UtilModel.Lemmas.DateText
import UtilModel.Props.C09
/-!
# C01 — Date text round-trip is lossless and canonical

Every real calendar date with year 0…999,999,999 (`ValidDate y m d`) formats to the zero-padded ISO
text and parses back to the same value through the model of `DefaultFormatter` / `DefaultParser`;
`MarshalText`, `String`, the `fmt` verbs and `UnmarshalText` are instances of these two (their switch
tables and flag constants are generated from the source). JSON and XML plumbing is exercised on the
implementation only (harness), see DESIGN §7.
-/
namespace U.Props.C01
open U U.Date U.GoTime

/-- generated facts the hand-written formatter/parser model relies on: the two `fmt` format strings,
the flag and rule bits, the default input limit -/
theorem source_facts :
    Gen.date_formatExtended = "%04d-%02d-%02d" ∧ Gen.date_formatBasic = "%04d%02d%02d" ∧
    Gen.date_FormatBasic = 1 ∧ Gen.date_RuleDisableBasic = 1 ∧ Gen.date_MaxInputLength = 10 := by decide

/-- the two digits of a number below 100, as `%02d` prints them -/
theorem padDec2 (n : Nat) (h : n < 100) : padDec 2 n = [48 + n / 10, 48 + n % 10] := by
  rw [padDec_small 2 n (by decide) (by simpa using h), fixed2]
  have : n / 10 % 10 = n / 10 := by omega
  rw [this]

/-- **canonical text**: zero-padded year (at least four digits), `-`, two-digit month, `-`, two-digit day;
or the same without separators for the basic flag. -/
theorem format_canonical (y m d : Nat) (hv : ValidDate y m d) (hy : y ≤ 999999999) (basic : Bool) :
    format [] (new y m d) basic = text (!basic) (padDec 4 y) (48 + m / 10) (48 + m % 10) (48 + d / 10) (48 + d % 10) := by
  have hdate := date_new_valid hv ⟨by omega, by omega⟩
  obtain ⟨h1, h12, hd1, hd⟩ := hv
  have hdl := daysIn_le (y : Int) m
  unfold format
  rw [hdate]
  simp only [Int.toNat_natCast, List.nil_append]
  rw [padDecInt_nonneg 4 (y : Int) (by omega), Int.toNat_natCast, padDec2 m (by omega), padDec2 d (by omega)]
  cases basic <;> simp [text]

/-- for years 0000–9999 the text has exactly four year digits: `YYYY-MM-DD` is 10 bytes, `YYYYMMDD` 8 -/
theorem format_canonical_4digit (y m d : Nat) (hv : ValidDate y m d) (hy : y ≤ 9999) (basic : Bool) :
    format [] (new y m d) basic = text (!basic) (fixed 4 y) (48 + m / 10) (48 + m % 10) (48 + d / 10) (48 + d % 10) ∧
    (format [] (new y m d) basic).length = if basic then 8 else 10 := by
  have h := format_canonical y m d hv (by omega) basic
  rw [padDec_small 4 y (by decide) (by omega)] at h
  refine ⟨h, ?_⟩
  rw [h]
  cases basic <;> simp [text, fixed_length]

/-- **round trip**: the canonical text parses back to the same date whenever it fits the input limit
(limit 0 = none) and its form is allowed by the rule. -/
theorem parse_format (maxLen : Nat) (disableBasic basic : Bool) (y m d : Nat) (hv : ValidDate y m d)
    (hy : y ≤ 999999999)
    (hlen : maxLen = 0 ∨ (format [] (new y m d) basic).length ≤ maxLen)
    (hrule : basic = true → disableBasic = false) :
    parse maxLen disableBasic (format [] (new y m d) basic) = .ok (new y m d) := by
  rw [format_canonical y m d hv hy basic] at hlen ⊢
  obtain ⟨w, hw, hw4, hw9, hyw⟩ := padDec_spec 4 9 y (by decide) (by decide) (by omega)
  obtain ⟨h1, h12, hd1, hd⟩ := hv
  have hdl := daysIn_le (y : Int) m
  have hvm : val [48 + m / 10, 48 + m % 10] = m := by rw [val_pair]; omega
  have hvd : val [48 + d / 10, 48 + d % 10] = d := by rw [val_pair]; omega
  have hvy : val (padDec 4 y) = y := by rw [hw]; exact val_fixed w y hyw
  have dig : ∀ k, k < 10 → isDigit (48 + k) = true := by
    intro k hk; simp only [isDigit, Bool.and_eq_true, decide_eq_true_eq]; omega
  have := parse_text maxLen disableBasic (!basic) (padDec 4 y) (48 + m / 10) (48 + m % 10) (48 + d / 10) (48 + d % 10)
    (by rw [hw]; exact allDigits_fixed w y) (by rw [hw, fixed_length]; omega)
    (dig _ (by omega)) (dig _ (by omega)) (dig _ (by omega)) (dig _ (by omega))
    (by rw [hvy, hvm, hvd]; exact (C09.validDate_iff y m d).mpr ⟨h1, h12, hd1, hd⟩) hlen
  rw [this, hvy, hvm, hvd]
  cases basic
  · simp
  · simp [hrule rfl]

/-- with the default limit (10) every date of years 0000–9999 round-trips in both forms -/
theorem parse_format_default (basic : Bool) (y m d : Nat) (hv : ValidDate y m d) (hy : y ≤ 9999) :
    parse Gen.date_MaxInputLength false (format [] (new y m d) basic) = .ok (new y m d) := by
  apply parse_format _ _ _ y m d hv (by omega)
  · right
    rw [(format_canonical_4digit y m d hv hy basic).2]
    cases basic <;> decide
  · intro _; rfl

/-- **all text paths agree**: `MarshalText`, `String`, `%s`, `%e`, `%v` give the extended text, `%b` the basic
one (flag constants and the verb switch come from the source). -/
theorem paths_agree (x : Date) :
    marshalText x = format [] x false ∧ Date.toString x = format [] x false ∧
    formatVerb x 115 = format [] x false ∧ formatVerb x 101 = format [] x false ∧
    formatVerb x 118 = format [] x false ∧ formatVerb x 98 = format [] x true := by
  have e0 : isBasic 0 = false := by decide
  have es : isBasic (flagsByVerb 115) = false := by decide
  have ee : isBasic (flagsByVerb 101) = false := by decide
  have ev : isBasic (flagsByVerb 118) = false := by decide
  have eb : isBasic (flagsByVerb 98) = true := by decide
  simp only [marshalText, Date.toString, formatVerb, e0, es, ee, ev, eb, and_self]

/-- `UnmarshalText ∘ MarshalText` is the identity on real dates (default limit, years 0000–9999; any
year up to 999,999,999 once the limit is raised or disabled) -/
theorem unmarshal_marshal (maxLen : Nat) (y m d : Nat) (hv : ValidDate y m d) (hy : y ≤ 999999999)
    (hlen : maxLen = 0 ∨ (marshalText (new y m d)).length ≤ maxLen) :
    unmarshalText maxLen (marshalText (new y m d)) = .ok (new y m d) := by
  have e0 : isBasic 0 = false := by decide
  have r0 : ruleDisableBasic 0 = false := by decide
  simp only [marshalText, unmarshalText, e0, r0] at hlen ⊢
  exact parse_format maxLen false false y m d hv hy hlen (by intro h; cases h)

/-! non-vacuity -/
example : ValidDate (2024 : Nat) 2 (29 : Nat) := by decide
example : format [] (new 2024 2 29) false = [50,48,50,52,45,48,50,45,50,57] := by decide
example : format [] (new 7 1 2) true = [48,48,48,55,48,49,48,50] := by decide
example : parse 0 false (format [] (new 123456789 12 31) true) = .ok (new 123456789 12 31) := by decide
example : parse 10 false (format [] (new 123456789 12 31) true) = .err .tooLong := by decide

end U.Props.C01
