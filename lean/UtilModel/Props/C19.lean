import UtilModel.Lemmas.UURandom
import UtilModel.Lemmas.LockProto
/-!
# C19 — Random UUIDs are always version 4 / variant 1, the other 122 bits are free; generation under the mutex

`UU.randomID a b` models `RandomID()` given the two draws `a, b` of `twoRandomUint63`
(`uint64(random.Int63())`, hence 63-bit values: `msb = false`). The bit expressions are the generated
`Gen.uu_rndHigher` / `Gen.uu_rndLower`. The bit facts come from `Lemmas/UURandom.lean`
(`rnd_version_bv`, `rnd_variant_bv`, `rnd_onto_bv`, `rnd_fixed_bv`, … — kernel-only proofs by bit extensionality; no `bv_decide`).

Finding: the variant claim needs the second draw to be 63-bit. `Lower = (b >> 1) | 1<<63`, so bit 62 of
`Lower` is bit 63 of `b`; for a full 64-bit `b` with the top bit set the variant would be 2 or 3
(`variant_needs_63bit`). `rand.Int63` never sets that bit, so the Go code is correct as written.
The version claim holds for every `a` (bit 63 of `a` is shifted out).
-/
namespace U.Props.C19
open U U.UU

/-- **version 4** for every pair of draws (even full 64-bit ones) -/
theorem version4 (a b : BitVec 64) : (randomID a b).version = 4 := by
  rw [version_eq]
  show ((Gen.uu_rndHigher a b >>> 12) &&& 15#64).toNat = 4
  rw [rnd_version_bv]; rfl

/-- **variant 1** (bits `10`) for every first draw and every 63-bit second draw -/
theorem variant1 (a b : BitVec 64) (hb : b.msb = false) : (randomID a b).variant = 1 :=
  (variant_eq_one_iff _).mpr (rnd_variant_bv a b hb)

/-- the 63-bit hypothesis of `variant1` cannot be dropped -/
theorem variant_needs_63bit : ∃ a b : BitVec 64, (randomID a b).variant ≠ 1 :=
  ⟨0#64, 9223372036854775808#64, by decide⟩

/-- **the remaining 122 bits are free and independent**: every ID with version 4 and variant 1 is produced
by some pair of 63-bit draws, so each of the other 60 bits of `Higher` and 62 bits of `Lower` takes both
values, in every combination. The witnesses are explicit. -/
theorem free_bits_onto (h l : BitVec 64) (hv : (⟨h, l⟩ : ID).version = 4) (hr : (⟨h, l⟩ : ID).variant = 1) :
    ∃ a b : BitVec 64, a.msb = false ∧ b.msb = false ∧ randomID a b = ⟨h, l⟩ := by
  have hv' : (h >>> 12) &&& 15#64 = 4#64 := by
    apply BitVec.eq_of_toNat_eq
    rw [version_eq] at hv
    exact hv
  obtain ⟨h1, h2⟩ := (variant_eq_one_iff _).mp hr
  obtain ⟨ha, hb, e1, e2⟩ := rnd_onto_bv h l hv' h1 h2
  refine ⟨((h >>> 1) &&& 0x7fffffffffff8000#64) ||| (h &&& 0xfff#64), l <<< 1, ha, hb, ?_⟩
  unfold randomID
  rw [e1, e2]

/-- **exactly six bits are constant**: bits 12–15 of `Higher` are `0100`, bits 62–63 of `Lower` are `10`;
by `free_bits_onto` no other bit is. -/
theorem fixed_bits (a b : BitVec 64) (hb : b.msb = false) :
    (randomID a b).hi &&& 0xf000#64 = 0x4000#64 ∧
    (randomID a b).lo &&& 0xc000000000000000#64 = 0x8000000000000000#64 :=
  rnd_fixed_bv a b hb

/-- each free bit really takes both values: flipping any bit of an attainable ID outside the six fixed
ones gives another attainable ID -/
theorem free_bit_flips (h l : BitVec 64) (hv : (⟨h, l⟩ : ID).version = 4) (hr : (⟨h, l⟩ : ID).variant = 1)
    (mh ml : BitVec 64) (hmh : mh &&& 0xf000#64 = 0#64) (hml : ml &&& 0xc000000000000000#64 = 0#64) :
    ∃ a b : BitVec 64, a.msb = false ∧ b.msb = false ∧ randomID a b = ⟨h ^^^ mh, l ^^^ ml⟩ := by
  apply free_bits_onto
  · rw [version_eq] at hv ⊢
    have hv' : (h >>> 12) &&& 15#64 = 4#64 := BitVec.eq_of_toNat_eq hv
    have : ((h ^^^ mh) >>> 12) &&& 15#64 = 4#64 := rnd_flip_hi_bv h mh hv' hmh
    show (((h ^^^ mh) >>> 12) &&& 15#64).toNat = 4
    rw [this]; rfl
  · obtain ⟨h1, h2⟩ := (variant_eq_one_iff _).mp hr
    exact (variant_eq_one_iff _).mpr (rnd_flip_lo_bv l ml h1 h2 hml)

/-! non-vacuity -/
example : randomID 0#64 0#64 = ⟨0x4000#64, 0x8000000000000000#64⟩ := by decide
example : randomID 0x7fffffffffffffff#64 0x7fffffffffffffff#64 =
    ⟨0xffffffffffff4fff#64, 0xbfffffffffffffff#64⟩ := by decide
example : (randomID 0x123456789abcdef0#64 0x0fedcba987654321#64).version = 4 := by decide
example : (randomID 0x123456789abcdef0#64 0x0fedcba987654321#64).variant = 1 := by decide
example : (⟨0x4000#64, 0xc000000000000000#64⟩ : ID).variant = 2 := by decide

/-! ## Protocol part: concurrent calls under the mutex (small-step model, `Model/LockProto.lean`) -/

open U.LockProto in
/-- generated structure fact: every function using the shared generator locks the mutex first and defers
the unlock (there is exactly one such function, `twoRandomUint63`) -/
theorem generator_only_under_mutex : Gen.uu_randomUnderMutex = true ∧ Gen.uu_randomUses = 1 := by decide

open U.LockProto in
/-- **mutual exclusion**: under every schedule at most one thread is between `Lock` and `Unlock` -/
theorem mutual_exclusion (sched : List Nat) (t u : Nat)
    (ht : (exec sched).pcs t ≠ .idle) (hu : (exec sched).pcs u ≠ .idle) : t = u := by
  have h := inv_exec sched
  have e1 := h.excl t ht
  have e2 := h.excl u hu
  rw [e1] at e2
  exact Option.some.inj e2

open U.LockProto in
/-- **no interleaving of draws**: under every schedule the k-th completed call received exactly the
stream positions 2k and 2k+1 — its two draws are adjacent and no other call's draw falls between them -/
theorem calls_get_consecutive_pairs (sched : List Nat) : DoneOk (exec sched).done 0 :=
  (inv_exec sched).done

open U.LockProto in
/-- hence distinct completed calls read disjoint positions of the generator's stream -/
theorem completed_calls_disjoint (sched : List Nat) (i j : Nat) (ci cj : Nat × Nat × Nat)
    (hi : (exec sched).done[i]? = some ci) (hj : (exec sched).done[j]? = some cj) (hij : i ≠ j) :
    ci.2.1 ≠ cj.2.1 ∧ ci.2.1 ≠ cj.2.2 ∧ ci.2.2 ≠ cj.2.1 ∧ ci.2.2 ≠ cj.2.2 := by
  have key : ∀ (l : List (Nat × Nat × Nat)) (k n : Nat) (c : Nat × Nat × Nat), DoneOk l k → l[n]? = some c →
      c.2.1 = 2 * (k + n) ∧ c.2.2 = 2 * (k + n) + 1 := by
    intro l
    induction l with
    | nil => intro k n c _ h; simp at h
    | cons x xs ih =>
      intro k n c hd h
      obtain ⟨t, a, b⟩ := x
      simp only [DoneOk] at hd
      cases n with
      | zero => simp at h; subst h; exact ⟨by simpa using hd.1, by simpa using hd.2.1⟩
      | succ n =>
        simp only [List.getElem?_cons_succ] at h
        have := ih (k + 1) n c hd.2.2 h
        constructor <;> omega
  have hd := calls_get_consecutive_pairs sched
  have a := key _ 0 i ci hd hi
  have b := key _ 0 j cj hd hj
  refine ⟨?_, ?_, ?_, ?_⟩ <;> omega

open U.LockProto in
/-- without the mutex the same threads can interleave their draws: a schedule of two threads in which
the first completed call holds positions 0 and 2 -/
theorem without_mutex_draws_interleave :
    ([0, 1, 0, 1, 0, 1, 0, 1].foldl stepNoLock init).done = [(0, 0, 2), (1, 1, 3)] := by decide

open U.LockProto in
example : (exec [0, 1, 0, 1, 0, 1, 0, 1, 1, 1, 1, 1]).done = [(0, 0, 1), (1, 2, 3)] := by decide

end U.Props.C19
