import UtilModel.Lemmas.Roman
import UtilModel.Lemmas.CodeTiesRoman
/-!
# C10 — Roman parser recognises exactly the documented numerals with the right value

`Roman.parse maxLen de s` models `DefaultParser(input, r)` (after fix F1) with `MaxInputLength = maxLen`
and `r & RuleDisableEmptyAsZero != 0 = de`; `Roman.valid` models `Valid`. Bytes: `M`=77, `D`=68, `C`=67,
`L`=76, `X`=88, `V`=86, `I`=73.

The specification (`up`, `forms`, `formValue`, `value`, `Numeral`) is stated here without reference to the
model. Go computes in `uint64`; the model applies `% two64` to the sum, and so does `accepts_iff`, which is
therefore exact for every text and every limit. `accepts_iff_small` removes the reduction whenever
`1000 * s.length < 2^64` (every text within a non-zero limit up to 2^54, in particular the default 128):
the value of a numeral is at most 1000 per byte (`value_le`).
The Go functions return the zero `Number` together with every error; `Outcome.err` carries no value.
-/
namespace U.Props.C10
open U

/-- ASCII upper-casing of a text -/
def up (s : Bytes) : Bytes := s.map toUpperAscii

/-- the twelve upper-case forms of one group written with the symbols `one`, `five`, `ten`:
    additive `five^a one^b` (`a ≤ 1`, `b ≤ 4`), then the subtractive four and nine -/
def forms (one five ten : Nat) : List Bytes :=
  ((List.range 2).flatMap fun a => (List.range 5).map fun b => List.replicate a five ++ List.replicate b one)
    ++ [[one, five], [one, ten]]

/-- digit value of a form: 4 and 9 for the subtractive forms, otherwise five per `five` and one per `one` -/
def formValue (one five ten : Nat) (g : Bytes) : Nat :=
  if g = [one, five] then 4 else if g = [one, ten] then 9 else 5 * g.count five + g.count one

/-- the number denoted by `M^k h t u` -/
def value (k : Nat) (h t u : Bytes) : Nat :=
  1000 * k + 100 * formValue 67 68 77 h + 10 * formValue 88 76 67 t + formValue 73 86 88 u

/-- `s` is, ignoring case, `M^k` followed by a hundreds, a tens and a units form -/
def Numeral (s : Bytes) (k : Nat) (h t u : Bytes) : Prop :=
  up s = List.replicate k 77 ++ h ++ t ++ u ∧ h ∈ forms 67 68 77 ∧ t ∈ forms 88 76 67 ∧ u ∈ forms 73 86 88

-- the helper lemmas use the same definitions under other names
example (one five ten : Nat) : forms one five ten = Roman.forms12 one five ten := rfl
example : @formValue = @Roman.gval := rfl
example : @up = @Roman.up := rfl
example : @value = @Roman.groupsValue := rfl

/-- `forms` is what its description says -/
theorem forms_spec (one five ten : Nat) (g : Bytes) :
    g ∈ forms one five ten ↔
      (∃ a b, a ≤ 1 ∧ b ≤ 4 ∧ g = List.replicate a five ++ List.replicate b one) ∨ g = [one, five] ∨ g = [one, ten] := by
  simp only [forms, List.mem_append, List.mem_flatMap, List.mem_map, List.mem_range, List.mem_cons, List.not_mem_nil, or_false]
  constructor
  · rintro (⟨a, ha, b, hb, rfl⟩ | h)
    · exact Or.inl ⟨a, b, by omega, by omega, rfl⟩
    · exact Or.inr h
  · rintro (⟨a, b, ha, hb, rfl⟩ | h)
    · exact Or.inl ⟨a, by omega, b, by omega, rfl⟩
    · exact Or.inr h

/-- **case**: parser and validity check see only the upper-cased text … -/
theorem case_invariant (maxLen : Nat) (de : Bool) (s : Bytes) :
    Roman.parse maxLen de s = Roman.parse maxLen de (up s) ∧
      Roman.valid maxLen de s = Roman.valid maxLen de (up s) :=
  ⟨(Roman.parse_up maxLen de s).symm, (Roman.valid_up maxLen de s).symm⟩

/-- … so texts that differ only in letter case have the same outcome -/
theorem case_insensitive (maxLen : Nat) (de : Bool) (s s' : Bytes) (h : up s = up s') :
    Roman.parse maxLen de s = Roman.parse maxLen de s' ∧ Roman.valid maxLen de s = Roman.valid maxLen de s' := by
  rw [(case_invariant maxLen de s).1, (case_invariant maxLen de s).2, (case_invariant maxLen de s').1,
    (case_invariant maxLen de s').2, h]
  exact ⟨rfl, rfl⟩

/-- **acceptance and value** (exact, `uint64` arithmetic): within the limit, the empty text is zero unless the
rule forbids it, and a non-empty text is accepted with result `n` iff it is a numeral whose value is `n` -/
theorem accepts_iff (maxLen : Nat) (de : Bool) (s : Bytes) (n : Nat) :
    Roman.parse maxLen de s = .ok n ↔
      (maxLen = 0 ∨ s.length ≤ maxLen) ∧
      ((s = [] ∧ de = false ∧ n = 0) ∨
       (s ≠ [] ∧ ∃ k h t u, Numeral s k h t u ∧ n = value k h t u % two64)) := by
  constructor
  · intro hp
    by_cases hne : s = []
    · subst hne
      rw [Roman.parse_nil] at hp
      cases de
      · simp only [Bool.false_eq_true, if_false, Outcome.ok.injEq] at hp
        exact ⟨Or.inr (Nat.zero_le _), Or.inl ⟨rfl, rfl, hp.symm⟩⟩
      · simp at hp
    · have hlen : maxLen = 0 ∨ s.length ≤ maxLen := by
        by_cases h0 : maxLen = 0
        · exact Or.inl h0
        · by_cases hl : s.length ≤ maxLen
          · exact Or.inr hl
          · rw [Roman.parse_too_long de h0 (by omega)] at hp
            simp at hp
      refine ⟨hlen, Or.inr ⟨hne, ?_⟩⟩
      cases hsh : Roman.shape s with
      | none =>
        rw [Roman.parse_of_no_shape de hne hlen hsh] at hp
        simp at hp
      | some q =>
        obtain ⟨ms, h, t, u⟩ := q
        rw [Roman.parse_of_shape de hne hlen hsh] at hp
        obtain ⟨hs, hm, hh, ht, hu⟩ := Roman.shape_sound hsh
        refine ⟨ms.length, Roman.up h, Roman.up t, Roman.up u, ⟨?_, hh, ht, hu⟩, ?_⟩
        · show Roman.up s = _
          rw [← hm, ← Roman.up_append, ← Roman.up_append, ← Roman.up_append, ← hs]
        · simp only [Outcome.ok.injEq] at hp
          exact hp.symm
  · rintro ⟨hlen, ⟨rfl, rfl, rfl⟩ | ⟨hne, k, h, t, u, ⟨hs, hh, ht, hu⟩, rfl⟩⟩
    · rfl
    · exact (Roman.parse_of_decomp de hne hlen hs hh ht hu).1


/-- a numeral is worth at most 1000 per byte -/
theorem value_le (s : Bytes) (k : Nat) (h t u : Bytes) (hN : Numeral s k h t u) :
    value k h t u ≤ 1000 * s.length := by
  obtain ⟨hs, hh, ht, hu⟩ := hN
  have := Roman.groupsValue_le k hh ht hu
  rw [← hs] at this
  have e : (up s).length = s.length := Roman.up_length s
  rw [e] at this
  exact this

/-- **acceptance and value** without the `uint64` reduction, for texts shorter than 2^64 / 1000 bytes -/
theorem accepts_iff_small (maxLen : Nat) (de : Bool) (s : Bytes) (n : Nat) (hsmall : 1000 * s.length < two64) :
    Roman.parse maxLen de s = .ok n ↔
      (maxLen = 0 ∨ s.length ≤ maxLen) ∧
      ((s = [] ∧ de = false ∧ n = 0) ∨
       (s ≠ [] ∧ ∃ k h t u, Numeral s k h t u ∧ n = value k h t u)) := by
  rw [accepts_iff]
  constructor
  · rintro ⟨hlen, h | ⟨hne, k, h, t, u, hN, rfl⟩⟩
    · exact ⟨hlen, Or.inl h⟩
    · refine ⟨hlen, Or.inr ⟨hne, k, h, t, u, hN, ?_⟩⟩
      exact Nat.mod_eq_of_lt (Nat.lt_of_le_of_lt (value_le s k h t u hN) hsmall)
  · rintro ⟨hlen, h | ⟨hne, k, h, t, u, hN, rfl⟩⟩
    · exact ⟨hlen, Or.inl h⟩
    · refine ⟨hlen, Or.inr ⟨hne, k, h, t, u, hN, ?_⟩⟩
      exact (Nat.mod_eq_of_lt (Nat.lt_of_le_of_lt (value_le s k h t u hN) hsmall)).symm

/-- **the validity check accepts exactly what the parser accepts** -/
theorem valid_iff_parse (maxLen : Nat) (de : Bool) (s : Bytes) :
    Roman.valid maxLen de s = .ok () ↔ ∃ n, Roman.parse maxLen de s = .ok n := by
  by_cases hne : s = []
  · subst hne
    rw [Roman.parse_nil, Roman.valid_nil]
    cases de <;> simp
  · by_cases hlen : maxLen = 0 ∨ s.length ≤ maxLen
    · rw [Roman.valid_of_nonempty de hne hlen]
      cases hsh : Roman.shape s with
      | none =>
        rw [Roman.parse_of_no_shape de hne hlen hsh]
        simp
      | some q =>
        obtain ⟨ms, h, t, u⟩ := q
        rw [Roman.parse_of_shape de hne hlen hsh]
        simp
    · have h0 : maxLen ≠ 0 := fun h => hlen (Or.inl h)
      have hl : s.length > maxLen := by omega
      rw [Roman.valid_too_long de h0 hl, Roman.parse_too_long de h0 hl]
      simp

/-- … i.e. exactly the numerals (and the empty text unless the rule forbids it) within the limit -/
theorem valid_iff (maxLen : Nat) (de : Bool) (s : Bytes) :
    Roman.valid maxLen de s = .ok () ↔
      (maxLen = 0 ∨ s.length ≤ maxLen) ∧
      ((s = [] ∧ de = false) ∨ (s ≠ [] ∧ ∃ k h t u, Numeral s k h t u)) := by
  rw [valid_iff_parse]
  constructor
  · rintro ⟨n, hn⟩
    obtain ⟨hlen, ⟨h1, h2, _⟩ | ⟨hne, k, h, t, u, hN, _⟩⟩ := (accepts_iff maxLen de s n).mp hn
    · exact ⟨hlen, Or.inl ⟨h1, h2⟩⟩
    · exact ⟨hlen, Or.inr ⟨hne, k, h, t, u, hN⟩⟩
  · rintro ⟨hlen, ⟨h1, h2⟩ | ⟨hne, k, h, t, u, hN⟩⟩
    · exact ⟨0, (accepts_iff maxLen de s 0).mpr ⟨hlen, Or.inl ⟨h1, h2, rfl⟩⟩⟩
    · exact ⟨_, (accepts_iff maxLen de s _).mpr ⟨hlen, Or.inr ⟨hne, k, h, t, u, hN, rfl⟩⟩⟩

/-- **errors**: over-long input (limit non-zero) is refused with the dedicated error before anything else … -/
theorem too_long (maxLen : Nat) (de : Bool) (s : Bytes) (h0 : maxLen ≠ 0) (h : s.length > maxLen) :
    Roman.parse maxLen de s = .err .tooLong ∧ Roman.valid maxLen de s = .err .tooLong :=
  ⟨Roman.parse_too_long de h0 h, Roman.valid_too_long de h0 h⟩

/-- … every other text that is not accepted is refused as invalid … -/
theorem rejected_invalid (maxLen : Nat) (de : Bool) (s : Bytes) (hlen : maxLen = 0 ∨ s.length ≤ maxLen)
    (hrej : ¬ ∃ n, Roman.parse maxLen de s = .ok n) :
    Roman.parse maxLen de s = .err .invalid ∧ Roman.valid maxLen de s = .err .invalid := by
  by_cases hne : s = []
  · subst hne
    rw [Roman.parse_nil] at hrej ⊢
    rw [Roman.valid_nil]
    cases de
    · exact absurd ⟨0, rfl⟩ hrej
    · exact ⟨rfl, rfl⟩
  · rw [Roman.valid_of_nonempty de hne hlen]
    cases hsh : Roman.shape s with
    | none => exact ⟨Roman.parse_of_no_shape de hne hlen hsh, rfl⟩
    | some q =>
      obtain ⟨ms, h, t, u⟩ := q
      exact absurd ⟨_, Roman.parse_of_shape de hne hlen hsh⟩ hrej

/-- … so parser and validity check always agree and end in one of three ways … -/
theorem outcome_cases (maxLen : Nat) (de : Bool) (s : Bytes) :
    (∃ n, Roman.parse maxLen de s = .ok n ∧ Roman.valid maxLen de s = .ok ()) ∨
    (Roman.parse maxLen de s = .err .tooLong ∧ Roman.valid maxLen de s = .err .tooLong) ∨
    (Roman.parse maxLen de s = .err .invalid ∧ Roman.valid maxLen de s = .err .invalid) := by
  by_cases hlen : maxLen = 0 ∨ s.length ≤ maxLen
  · by_cases hacc : ∃ n, Roman.parse maxLen de s = .ok n
    · obtain ⟨n, hn⟩ := hacc
      exact Or.inl ⟨n, hn, (valid_iff_parse maxLen de s).mpr ⟨n, hn⟩⟩
    · exact Or.inr (Or.inr (rejected_invalid maxLen de s hlen hacc))
  · exact Or.inr (Or.inl (too_long maxLen de s (fun h => hlen (Or.inl h)) (by omega)))

/-- … never in a run-time panic (`input[0]`, `input[1]` and `p[i+2]` are in range) -/
theorem no_panic (maxLen : Nat) (de : Bool) (s : Bytes) :
    Roman.parse maxLen de s ≠ .panic ∧ Roman.valid maxLen de s ≠ .panic := by
  rcases outcome_cases maxLen de s with ⟨n, h1, h2⟩ | ⟨h1, h2⟩ | ⟨h1, h2⟩ <;> rw [h1, h2] <;> simp

/-! non-vacuity, and the defect that fix F1 removed (lower-case subtractive forms) -/
example : Roman.parse 128 false [77,67,77,88,67,73,86] = .ok 1994 := by decide          -- MCMXCIV
example : Roman.parse 128 false [109,99,109,120,99,105,118] = .ok 1994 := by decide     -- mcmxciv
example : Roman.parse 128 false [105,118] = .ok 4 := by decide                          -- iv (F1)
example : Roman.parse 128 false [73,73,73,73] = .ok 4 := by decide                      -- IIII
example : Roman.parse 128 false [] = .ok 0 := by decide
example : Roman.parse 128 true [] = .err .invalid := by decide
example : Roman.parse 128 false [73,73,73,73,73] = .err .invalid := by decide           -- IIIII
example : Roman.parse 128 false [73,77] = .err .invalid := by decide                    -- IM
example : Roman.parse 128 false [86,73,86] = .err .invalid := by decide                 -- VIV
example : Roman.parse 3 false [73,73,73,73] = .err .tooLong := by decide
example : Roman.valid 128 false [120,76,105,73] = .ok () := by decide                   -- xLiI
example : Numeral [109,99,109,120,99,105,118] 1 [67,77] [88,67] [73,86] := by unfold Numeral; decide
example : value 1 [67,77] [88,67] [73,86] = 1994 := by decide

/-- **tie to the source**: `parseGroup` as translated from `roman/parse.go` on this run never needs an
out-of-range byte and computes the model's value for every input, unit and pair of symbols -/
theorem parseGroup_code_tie (input : Bytes) (unit d5 d10 : Nat) :
    Roman.parseGroup input unit d5 d10 = .ok (Gen.roman_parseGroup input unit d5 d10) :=
  CodeTies.parseGroup_tie input unit d5 d10

end U.Props.C10
