import UtilModel.Lemmas.Roman
import UtilModel.Props.C10
/-!
# C02 — Roman numerals round-trip under every format flag combination

`Roman.format buf n f` models `DefaultFormatter(buf, n, f)` (after fix F2), `Roman.flagsByVerb verb df` models
`formatByVerb(verb)` with `DefaultFormat = df`; `MarshalText` and `String` are `Roman.format [] n df`, the
`fmt` verbs are `Roman.format [] n (Roman.flagsByVerb verb df)` (the driver's `roman.paths` operation).
`Roman.hasFlag f bit` is Go's `f&bit != 0`; `f` ranges over all naturals, i.e. over every flag combination
including undefined bits. `Roman.parse` / `Roman.valid` as in C10.

The specification (`digitForm`, `canonical`, `caseOf`) is stated here without reference to the model.
-/
namespace U.Props.C02
open U

/-- canonical form of the decimal digit `d` written with `one`, `five`, `ten`: the subtractive form of 4 and 9
    unless the matching long-form flag is set, otherwise `five^(d/5) one^(d%5)` -/
def digitForm (one five ten : Nat) (long4 long9 : Bool) (d : Nat) : Bytes :=
  if d = 4 ∧ long4 = false then [one, five]
  else if d = 9 ∧ long9 = false then [one, ten]
  else List.replicate (d / 5) five ++ List.replicate (d % 5) one

def hundredsForm (f d : Nat) : Bytes :=
  digitForm 67 68 77 (Roman.hasFlag f Gen.roman_FormatLong400) (Roman.hasFlag f Gen.roman_FormatLong900) d
def tensForm (f d : Nat) : Bytes :=
  digitForm 88 76 67 (Roman.hasFlag f Gen.roman_FormatLong40) (Roman.hasFlag f Gen.roman_FormatLong90) d
def unitsForm (f d : Nat) : Bytes :=
  digitForm 73 86 88 (Roman.hasFlag f Gen.roman_FormatLong4) (Roman.hasFlag f Gen.roman_FormatLong9) d

/-- the canonical upper-case numeral of `n`: thousands as repeated `M`, then one form per decimal digit -/
def canonical (n f : Nat) : Bytes :=
  List.replicate (n / 1000) 77 ++ hundredsForm f (n % 1000 / 100) ++ tensForm f (n % 100 / 10) ++ unitsForm f (n % 10)

/-- the lower-case flag changes letter case only -/
def caseOf (f : Nat) (s : Bytes) : Bytes :=
  if Roman.hasFlag f Gen.roman_FormatLowerCase = true then s.map toLowerAscii else s

-- the helper lemmas use the same definitions under other names
example : @digitForm = @Roman.dform := rfl
example : @canonical = @Roman.canon := rfl

/-- **tables**: the three digit tables with their long-form overrides are the canonical digit forms -/
theorem tables_are_forms (d f : Nat) (hd : d ≤ 9) :
    Roman.toHundreds d f = hundredsForm f d ∧ Roman.toTens d f = tensForm f d ∧ Roman.toUnits d f = unitsForm f d :=
  ⟨Roman.toHundreds_eq d f hd, Roman.toTens_eq d f hd, Roman.toUnits_eq d f hd⟩

/-- every canonical digit form is one of the parser's forms (C10) and is worth its digit -/
theorem digit_forms (d f : Nat) (hd : d ≤ 9) :
    (hundredsForm f d ∈ C10.forms 67 68 77 ∧ C10.formValue 67 68 77 (hundredsForm f d) = d) ∧
    (tensForm f d ∈ C10.forms 88 76 67 ∧ C10.formValue 88 76 67 (tensForm f d) = d) ∧
    (unitsForm f d ∈ C10.forms 73 86 88 ∧ C10.formValue 73 86 88 (unitsForm f d) = d) :=
  ⟨Roman.dform_hundreds d (by omega) _ _, Roman.dform_tens d (by omega) _ _, Roman.dform_units d (by omega) _ _⟩

/-- **the numeral is canonical**, for every number and every flag combination … -/
theorem format_canonical (n f : Nat) : Roman.format [] n f = caseOf f (canonical n f) :=
  Roman.format_eq n f

/-- … its upper-casing does not depend on the lower-case flag … -/
theorem format_upper (n f : Nat) : C10.up (Roman.format [] n f) = canonical n f :=
  Roman.up_format n f

/-- … and zero, and only zero, is the empty text -/
theorem format_nil_iff (n f : Nat) : Roman.format [] n f = [] ↔ n = 0 := by
  constructor
  · intro h
    exact Classical.byContradiction fun h0 => Roman.format_ne_nil n f h0 h
  · rintro rfl
    rfl

/-- a non-zero number's numeral is a numeral in the sense of C10, with the number as value -/
theorem format_numeral (n f : Nat) :
    C10.Numeral (Roman.format [] n f) (n / 1000) (hundredsForm f (n % 1000 / 100)) (tensForm f (n % 100 / 10))
      (unitsForm f (n % 10)) ∧
    C10.value (n / 1000) (hundredsForm f (n % 1000 / 100)) (tensForm f (n % 100 / 10)) (unitsForm f (n % 10)) = n :=
  ⟨⟨Roman.up_format n f, (Roman.dform_hundreds _ (by omega) _ _).1, (Roman.dform_tens _ (by omega) _ _).1,
    (Roman.dform_units _ (by omega) _ _).1⟩, Roman.canon_value n f⟩

/-- **round trip**: for every `uint64` number and every flag combination, if the numeral fits within the limit
(and zero is not forbidden by the rule) it parses back to the number and passes the validity check -/
theorem parse_format (maxLen : Nat) (de : Bool) (n f : Nat) (hn : n < two64)
    (hlen : maxLen = 0 ∨ (Roman.format [] n f).length ≤ maxLen) (hz : n = 0 → de = false) :
    Roman.parse maxLen de (Roman.format [] n f) = .ok n ∧ Roman.valid maxLen de (Roman.format [] n f) = .ok () := by
  by_cases h0 : n = 0
  · subst h0
    rw [hz rfl]
    exact ⟨rfl, rfl⟩
  · exact Roman.parse_format' maxLen de n f hn h0 hlen

/-- with the rule that forbids empty input, the numeral of zero is refused -/
theorem parse_format_zero_disabled (maxLen f : Nat) :
    Roman.parse maxLen true (Roman.format [] 0 f) = .err .invalid ∧
      Roman.valid maxLen true (Roman.format [] 0 f) = .err .invalid :=
  ⟨rfl, rfl⟩

/-- **paths**: the flags chosen by the `fmt` verbs `R r L l`; every other verb (`s`, `v`, …), like
`MarshalText` and `String`, uses `DefaultFormat` -/
theorem paths_agree (df : Nat) :
    Roman.flagsByVerb 82 df = 0 ∧
    Roman.flagsByVerb 114 df = Gen.roman_FormatLowerCase ∧
    Roman.flagsByVerb 76 df = Gen.roman_FormatLong ∧
    Roman.flagsByVerb 108 df = Gen.roman_FormatLong ||| Gen.roman_FormatLowerCase ∧
    ∀ verb, verb ∉ [82, 114, 76, 108] → Roman.flagsByVerb verb df = df := by
  refine ⟨rfl, rfl, rfl, rfl, ?_⟩
  intro verb hv
  simp only [List.mem_cons, List.not_mem_nil, or_false, not_or] at hv
  obtain ⟨h1, h2, h3, h4⟩ := hv
  have e : ∀ k : Nat, verb ≠ k → (k == verb) = false := fun k h => by
    simp only [beq_eq_false_iff_ne, ne_eq]; exact fun e => h e.symm
  simp only [Roman.flagsByVerb, Gen.roman_verbs, Gen.roman_verbDefault, List.find?, e _ h1, e _ h2, e _ h3, e _ h4,
    Option.getD_none]

/-- so every formatting path round-trips -/
theorem paths_round_trip (maxLen : Nat) (de : Bool) (n df verb : Nat) (hn : n < two64)
    (hlen : maxLen = 0 ∨ (Roman.format [] n (Roman.flagsByVerb verb df)).length ≤ maxLen) (hz : n = 0 → de = false) :
    Roman.parse maxLen de (Roman.format [] n (Roman.flagsByVerb verb df)) = .ok n :=
  (parse_format maxLen de n _ hn hlen hz).1

/-! non-vacuity, and the defects that fixes F1 and F2 removed -/
example : Roman.format [] 1994 0 = [77,67,77,88,67,73,86] := by decide                          -- MCMXCIV
example : Roman.parse 128 false [77,67,77,88,67,73,86] = .ok 1994 := by decide
example : Roman.format [] 4 Gen.roman_FormatLong4 = [73,73,73,73] := by decide                  -- IIII
example : Roman.parse 128 false [73,73,73,73] = .ok 4 := by decide
example : Roman.format [] 1994 127 = [109,100,99,99,99,99,108,120,120,120,120,105,105,105,105] := by decide -- mdcccclxxxxiiii
example : Roman.parse 128 false (Roman.format [] 1994 127) = .ok 1994 := by decide
example : Roman.format [] 4 Gen.roman_FormatLowerCase = [105,118] := by decide                   -- iv
example : Roman.parse 128 false [105,118] = .ok 4 := by decide                                  -- F1
example : Roman.format [] 0 127 = [] := by decide
example : Roman.parse 128 false [] = .ok 0 := by decide
example : Roman.parse 128 true (Roman.format [] 0 0) = .err .invalid := by decide
example : Roman.format [] 3999 0 = [77,77,77,67,77,88,67,73,88] := by decide                    -- MMMCMXCIX
example : canonical 1994 0 = [77,67,77,88,67,73,86] := by decide
example : Roman.parse 10 false (Roman.format [] 3888 0) = .err .tooLong := by decide            -- 15 bytes: the limit hypothesis matters

end U.Props.C02
