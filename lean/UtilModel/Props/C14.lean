import UtilModel.Lemmas.SemOrder
import UtilModel.Lemmas.CodeTiesSem
/-!
# C14 — Version comparison is a coherent order and next/latest respect it

All order laws below hold for **arbitrary** versions — any numbers, any byte strings in the
pre-release and build fields (valid or not, including the identifiers C06 excludes).
-/
namespace U.Props.C14
open U U.Sem

/-- **range**: comparison returns -1, 0 or 1 -/
theorem range (v w : Ver) : v.compare w = -1 ∨ v.compare w = 0 ∨ v.compare w = 1 := by
  unfold Ver.compare
  repeat' split
  all_goals first | (left; rfl) | (right; right; rfl) | exact comparePre_range _ _

/-- **reflexive** -/
theorem refl (v : Ver) : v.compare v = 0 := by
  unfold Ver.compare
  simp only [Nat.lt_irrefl, gt_iff_lt, if_false]
  exact comparePre_refl _

/-- **antisymmetric**: swapping the arguments negates the result -/
theorem antisymm (v w : Ver) : v.compare w = - w.compare v := by
  unfold Ver.compare
  simp only [gt_iff_lt]
  by_cases h1 : v.major < w.major
  · rw [if_pos h1, if_neg (by omega), if_pos h1]
  · rw [if_neg h1]
    by_cases h2 : w.major < v.major
    · rw [if_pos h2, if_pos h2]; rfl
    · rw [if_neg h2, if_neg h2, if_neg h1]
      by_cases h3 : v.minor < w.minor
      · rw [if_pos h3, if_neg (by omega), if_pos h3]
      · rw [if_neg h3]
        by_cases h4 : w.minor < v.minor
        · rw [if_pos h4, if_pos h4]; rfl
        · rw [if_neg h4, if_neg h4, if_neg h3]
          by_cases h5 : v.patch < w.patch
          · rw [if_pos h5, if_neg (by omega), if_pos h5]
          · rw [if_neg h5]
            by_cases h6 : w.patch < v.patch
            · rw [if_pos h6, if_pos h6]; rfl
            · rw [if_neg h6, if_neg h6, if_neg h5]
              exact comparePre_antisymm _ _

/-- **build metadata is ignored** -/
theorem build_irrelevant (v w : Ver) (b1 b2 : Bytes) :
    ({ v with build := b1 } : Ver).compare { w with build := b2 } = v.compare w := rfl

/-- equal core and equal pre-release compare as 0, whatever the build metadata -/
theorem equal_core_pre_zero (v w : Ver) (h : v.major = w.major ∧ v.minor = w.minor ∧ v.patch = w.patch ∧ v.pre = w.pre) :
    v.compare w = 0 := by
  obtain ⟨h1, h2, h3, h4⟩ := h
  unfold Ver.compare
  simp only [h1, h2, h3, h4, Nat.lt_irrefl, gt_iff_lt, if_false]
  exact comparePre_refl _

/-- **latest-of-two** returns one of its arguments and never the lower one -/
theorem latest_choice (v w : Ver) :
    (v.latest w = v ∨ v.latest w = w) ∧ 0 ≤ (v.latest w).compare v ∧ 0 ≤ (v.latest w).compare w := by
  unfold Ver.latest
  by_cases h : v.compare w = -1
  · rw [if_pos h]
    refine ⟨Or.inr rfl, ?_, ?_⟩
    · rw [antisymm, h]; decide
    · rw [refl]; decide
  · rw [if_neg h]
    refine ⟨Or.inl rfl, ?_, ?_⟩
    · rw [refl]; decide
    · rcases range v w with h' | h' | h'
      · exact absurd h' h
      · rw [h']; decide
      · rw [h']; decide

/-- **string helpers**: a value exactly when both texts parse for that helper, and then the value is
what comparing the parsed versions gives; otherwise the first text's error, else the second's. -/
theorem helpers_compare (maxLen : Nat) (e : Entry) (a b : Bytes) :
    compareStr maxLen e a b =
      match parseEntry maxLen e a, parseEntry maxLen e b with
      | .ok av, .ok bv => .ok (av.compare bv)
      | .ok _, .err x => .err x
      | .ok _, .panic => .panic
      | .err x, _ => .err x
      | .panic, _ => .panic := by
  unfold compareStr Outcome.bind
  cases parseEntry maxLen e a <;> cases parseEntry maxLen e b <;> rfl

theorem helpers_latest (maxLen : Nat) (e : Entry) (a b : Bytes) :
    latestStr maxLen e a b =
      match parseEntry maxLen e a, parseEntry maxLen e b with
      | .ok av, .ok bv => .ok (av.latest bv)
      | .ok _, .err x => .err x
      | .ok _, .panic => .panic
      | .err x, _ => .err x
      | .panic, _ => .panic := by
  unfold latestStr Outcome.bind
  cases parseEntry maxLen e a <;> cases parseEntry maxLen e b <;> rfl

/-- **next-major/minor/patch**: a plain release strictly above the receiver; panic exactly at 2^64-1 -/
theorem next_major (v : Ver) (h : v.major < two64) :
    (v.major = two64 - 1 → v.nextMajor = .panic) ∧
    (v.major ≠ two64 - 1 → ∃ n, v.nextMajor = .ok n ∧ n.pre = [] ∧ n.build = [] ∧ n.minor = 0 ∧ n.patch = 0 ∧
      n.major = v.major + 1 ∧ n.compare v = 1) := by
  unfold Ver.nextMajor two64 at *
  constructor
  · intro he; rw [if_pos (by omega)]
  · intro hne
    rw [if_neg (by omega)]
    refine ⟨_, rfl, rfl, rfl, rfl, rfl, rfl, ?_⟩
    unfold Ver.compare
    simp only [gt_iff_lt]
    rw [if_neg (by omega), if_pos (by omega)]

theorem next_minor (v : Ver) (h : v.minor < two64) :
    (v.minor = two64 - 1 → v.nextMinor = .panic) ∧
    (v.minor ≠ two64 - 1 → ∃ n, v.nextMinor = .ok n ∧ n.pre = [] ∧ n.build = [] ∧ n.major = v.major ∧ n.patch = 0 ∧
      n.minor = v.minor + 1 ∧ n.compare v = 1) := by
  unfold Ver.nextMinor two64 at *
  constructor
  · intro he; rw [if_pos (by omega)]
  · intro hne
    rw [if_neg (by omega)]
    refine ⟨_, rfl, rfl, rfl, rfl, rfl, rfl, ?_⟩
    unfold Ver.compare
    simp only [gt_iff_lt]
    rw [if_neg (by omega), if_neg (by omega), if_neg (by omega), if_pos (by omega)]

theorem next_patch (v : Ver) (h : v.patch < two64) :
    (v.patch = two64 - 1 → v.nextPatch = .panic) ∧
    (v.patch ≠ two64 - 1 → ∃ n, v.nextPatch = .ok n ∧ n.pre = [] ∧ n.build = [] ∧ n.major = v.major ∧ n.minor = v.minor ∧
      n.patch = v.patch + 1 ∧ n.compare v = 1) := by
  unfold Ver.nextPatch two64 at *
  constructor
  · intro he; rw [if_pos (by omega)]
  · intro hne
    rw [if_neg (by omega)]
    refine ⟨_, rfl, rfl, rfl, rfl, rfl, rfl, ?_⟩
    unfold Ver.compare
    simp only [gt_iff_lt]
    rw [if_neg (by omega), if_neg (by omega), if_neg (by omega), if_neg (by omega), if_neg (by omega), if_pos (by omega)]

/-! non-vacuity (including the identifiers C06 leaves out) -/
example : comparePre [97, 48, 49] [97, 49] = 0 := by decide            -- a01 vs a1
example : comparePre [97, 49] [97, 48, 50] = -1 := by decide           -- a1 < a02
example : (⟨1, 0, 0, [114, 99, 49, 48], [120]⟩ : Ver).compare ⟨1, 0, 0, [], []⟩ = -1 := by decide
example : (⟨18446744073709551615, 0, 0, [], []⟩ : Ver).nextMajor = .panic := by decide

/-- **tie to the source**: `Ver.Compare` as translated from `sem/version.go` on this run is the model's `compare` -/
theorem compare_code_tie (v w : Ver) :
    v.compare w = Gen.sem_Compare comparePre v.major v.minor v.patch v.pre w.major w.minor w.patch w.pre :=
  CodeTies.compare_tie v w

/-- **tie to the source**: `NextMajor/NextMinor/NextPatch` as translated from `sem/version.go` on this run
(`bits.Add64(x, 1, 0)` is the 65-bit sum split at 2^64, `panic` is `none`) are the model's, for 64-bit components -/
theorem next_code_tie (v : Ver) :
    (v.major < two64 → CodeTies.verOpt v.nextMajor = Gen.sem_NextMajor v.major v.minor v.patch v.pre v.build) ∧
    (v.minor < two64 → CodeTies.verOpt v.nextMinor = Gen.sem_NextMinor v.major v.minor v.patch v.pre v.build) ∧
    (v.patch < two64 → CodeTies.verOpt v.nextPatch = Gen.sem_NextPatch v.major v.minor v.patch v.pre v.build) :=
  ⟨CodeTies.nextMajor_tie v, CodeTies.nextMinor_tie v, CodeTies.nextPatch_tie v⟩

/-- **tie to the source**: `Ver.Latest` (through the translated `Compare`), `Ver.IsZero` and `Ver.Core` as translated
on this run are the model's `latest`, `isZero`, `core` (versions as tuples of their five fields) -/
theorem latest_code_tie (v w : Ver) :
    CodeTies.verTuple (v.latest w)
      = Gen.sem_Latest comparePre v.major v.minor v.patch v.pre v.build w.major w.minor w.patch w.pre w.build ∧
    v.isZero = Gen.sem_IsZero v.major v.minor v.patch v.pre v.build ∧
    CodeTies.verTuple v.core = Gen.sem_Core v.major v.minor v.patch v.pre v.build :=
  ⟨CodeTies.latest_tie v w, CodeTies.isZero_ver_tie v, CodeTies.core_tie v⟩

example : CodeTies.verOpt (⟨18446744073709551615, 0, 0, [], []⟩ : Ver).nextMajor = none := by decide
example : CodeTies.verOpt (⟨1, 2, 3, [97], [98]⟩ : Ver).nextMinor = some (1, 3, 0, [], []) := by decide
example : (⟨0, 0, 0, [], [98]⟩ : Ver).isZero = false ∧ Ver.zero.isZero = true := by decide

end U.Props.C14
