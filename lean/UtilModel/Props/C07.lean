import UtilModel.Lemmas.DateBasics
import UtilModel.Lemmas.CodeTiesDate
/-!
# C07 — Date ordering and arithmetic agree with the calendar

`Proper d` = the stored value reads back as a real calendar date (every value produced by `New`,
`FromTime`, the parser or `UnmarshalBinary` is proper, see `proper_new`, `ofCivil_civil`,
C11.decodes_only_real_dates). `d.ordinal` is the day number of `d.Time()` in the calendar model
(`Lemmas/Calendar.lean` proves that model a monotone bijection with valid dates); that Go's `time`
package implements the same calendar is validated by correspondence, not proved.
-/
namespace U.Props.C07
open U U.Date U.GoTime

/-- **trichotomy** for all stored values: exactly one of before / equal / after. -/
theorem trichotomy (d e : Date) :
    (d.before e = true ∧ d.equal e = false ∧ d.after e = false) ∨
    (d.before e = false ∧ d.equal e = true ∧ d.after e = false) ∨
    (d.before e = false ∧ d.equal e = false ∧ d.after e = true) := by
  cases d with | mk y m dd => cases e with | mk y' m' dd' =>
  simp only [Date.before, Date.after, Date.equal, gt_iff_lt]
  by_cases h1 : y < y'
  · left; simp [h1, Int.ne_of_lt h1, Int.lt_asymm h1]
  · by_cases h2 : y' < y
    · right; right; simp [h1, h2, Int.ne_of_gt h2]
    · have hy : y = y' := by omega
      subst hy
      by_cases h3 : m < m'
      · left; simp [h3, Nat.ne_of_lt h3, Nat.lt_asymm h3]
      · by_cases h4 : m' < m
        · right; right; simp [h3, h4, Nat.ne_of_gt h4]
        · have hm : m = m' := by omega
          subst hm
          by_cases h5 : dd < dd'
          · left; simp [h5, Nat.ne_of_lt h5, Nat.lt_asymm h5]
          · by_cases h6 : dd' < dd
            · right; right; simp [h5, h6, Nat.ne_of_gt h6]
            · have hd : dd = dd' := by omega
              subst hd
              right; left; simp

/-- **the order is chronological** on real calendar dates. -/
theorem order_is_chronological (d e : Date) (hd : Proper d) (he : Proper e) :
    (d.before e = true ↔ d.ordinal < e.ordinal) ∧
    (d.equal e = true ↔ d.ordinal = e.ordinal) ∧
    (d.after e = true ↔ e.ordinal < d.ordinal) :=
  ⟨before_iff hd he, equal_iff hd he, after_iff hd he⟩

/-- **duration and day count are exact** within `time.Duration`'s range. -/
theorem sub_exact (d e : Date)
    (h : -9223372036854775808 ≤ (d.ordinal - e.ordinal) * 86400000000000 ∧
         (d.ordinal - e.ordinal) * 86400000000000 ≤ 9223372036854775807) :
    d.sub e = (d.ordinal - e.ordinal) * 86400000000000 ∧ d.daysBetween e = d.ordinal - e.ordinal := by
  have hs : d.sub e = (d.ordinal - e.ordinal) * 86400000000000 := by
    unfold Date.sub subDays nsPerDay maxDur minDur
    simp only
    rw [if_neg (by omega), if_neg (by omega)]
  refine ⟨hs, ?_⟩
  unfold Date.daysBetween hoursDiv24 nsPerHour
  rw [hs]
  generalize d.ordinal - e.ordinal = k
  have e1 : k * 86400000000000 = (k * 24) * 3600000000000 := by omega
  rw [e1, Int.mul_tdiv_cancel _ (by decide), Int.mul_tdiv_cancel _ (by decide)]

/-- outside that range the duration saturates (it never wraps) -/
theorem sub_saturates (d e : Date) :
    d.sub e = 9223372036854775807 ∨ d.sub e = -9223372036854775808 ∨
    d.sub e = (d.ordinal - e.ordinal) * 86400000000000 := by
  unfold Date.sub subDays nsPerDay maxDur minDur
  simp only
  split
  · left; rfl
  · split
    · right; left; rfl
    · right; right; rfl

/-- **Add** lands on the real calendar date whose day number is the one `time.AddDate`'s
normalisation dictates: year and month overflow are folded into the year, days simply add. -/
theorem add_spec (d : Date) (years months days : Int)
    (hr : -2147483647 ≤ (civil (ordinalNorm (d.date.1 + years) (d.date.2.1 + months) (d.date.2.2 + days))).1 ∧
          (civil (ordinalNorm (d.date.1 + years) (d.date.2.1 + months) (d.date.2.2 + days))).1 < 2147483648) :
    Proper (d.add years months days) ∧
    (d.add years months days).ordinal = ordinalNorm (d.date.1 + years) (d.date.2.1 + months) (d.date.2.2 + days) := by
  unfold Date.add new
  simp only
  have := ofCivil_civil _ hr
  exact ⟨this.1, this.2.1⟩

/-- adding days only moves the day number by exactly that many days -/
theorem add_days_exact (d : Date) (hd : Proper d) (k : Int)
    (hr : -2147483647 ≤ (civil (d.ordinal + k)).1 ∧ (civil (d.ordinal + k)).1 < 2147483648) :
    Proper (d.add 0 0 k) ∧ (d.add 0 0 k).ordinal = d.ordinal + k := by
  have e : ordinalNorm (d.date.1 + 0) (d.date.2.1 + 0) (d.date.2.2 + k) = d.ordinal + k := by
    rw [ordinal_proper hd]
    simp only [Int.add_zero]
    rw [ordinalNorm_valid _ _ _ hd.1.1 hd.1.2.1]
    unfold ordinal; omega
  have := add_spec d 0 0 k (by rw [e]; exact hr)
  rw [e] at this
  exact this

/-- **AddDuration**: whole days of the duration (rounded towards the past) are added. -/
theorem addDuration_spec (d : Date) (dur : Int)
    (hr : -2147483647 ≤ (civil (d.ordinal + dur / 86400000000000)).1 ∧
          (civil (d.ordinal + dur / 86400000000000)).1 < 2147483648) :
    Proper (d.addDuration dur) ∧ (d.addDuration dur).ordinal = d.ordinal + dur / 86400000000000 := by
  unfold Date.addDuration nsPerDay
  have := ofCivil_civil _ hr
  exact ⟨this.1, this.2.1⟩

/-- **Time → date round trip**: midnight UTC of a real calendar date converts back to that date. -/
theorem time_roundtrip (d : Date) (hd : Proper d) :
    fromTime ((d.ordinal - 1) * 86400) 0 0 = d := by
  have hcv : civil d.ordinal = (d.date.1, d.date.2.1, (d.date.2.2 : Int)) := by
    rw [ordinal_proper hd]; exact civil_ordinal hd.1
  have hof : ofCivil (civil d.ordinal) = d := by
    rw [hcv, ofCivil_valid hd.1, date_proper hd]
    obtain ⟨_, h1, h2, h3, h4⟩ := hd
    cases d with | mk y m dd =>
    simp only at h1 h2 h3 h4 ⊢
    rw [wrap32_id (by omega)]
    congr 1
    · omega
    · omega
  unfold fromTime
  split
  · rename_i h0
    have ho : d.ordinal = 1 := by omega
    rw [ho] at hof
    rw [← hof]
    decide
  · have e : ((d.ordinal - 1) * 86400 + 0) / 86400 + 1 = d.ordinal := by omega
    rw [e, hof]

/-- **FromTime in a zone**: a non-zero instant maps to the calendar day shown by that zone's clock,
i.e. the day number of ⌊(seconds + offset) / 86400⌋. -/
theorem fromTime_local (sec nsec off : Int) (hnz : ¬ (sec = 0 ∧ nsec = 0))
    (hr : -2147483647 ≤ (civil ((sec + off) / 86400 + 1)).1 ∧ (civil ((sec + off) / 86400 + 1)).1 < 2147483648) :
    Proper (fromTime sec nsec off) ∧ (fromTime sec nsec off).ordinal = (sec + off) / 86400 + 1 := by
  unfold fromTime
  rw [if_neg hnz]
  have := ofCivil_civil _ hr
  exact ⟨this.1, this.2.1⟩

/-! non-vacuity -/
example : Proper (new 2024 2 29) ∧ Proper (new 2023 12 31) := ⟨proper_new (by decide) (by decide), proper_new (by decide) (by decide)⟩
example : (new 2024 3 1).daysBetween (new 2024 2 1) = 29 := by decide
example : (new 2024 1 31).add 0 1 0 = new 2024 3 2 := by decide
example : (new 2024 3 1).addDuration (-1) = new 2024 2 29 := by decide
example : fromTime (((new 2024 3 1).ordinal - 1) * 86400 - 3600) 0 7200 = new 2024 3 1 := by decide

/-- **tie to the source**: `After`, `Before`, `Equal`, `IsZero` as translated statement by statement from
`date/date.go` on this run (`Gen.date_*`) compute exactly what the model functions above compute -/
theorem order_code_tie (d e : Date) :
    d.after e = Gen.date_After d.year d.month d.day e.year e.month e.day ∧
    d.before e = Gen.date_Before d.year d.month d.day e.year e.month e.day ∧
    d.equal e = Gen.date_Equal d.year d.month d.day e.year e.month e.day ∧
    d.isZero = Gen.date_IsZero d.year d.month d.day :=
  ⟨CodeTies.after_tie d e, CodeTies.before_tie d e, CodeTies.equal_tie d e, CodeTies.isZero_tie d⟩

end U.Props.C07
