import UtilModel.Lemmas.SizeRender
/-!
# C12 — Size JSON forms are gated by rules and objects are read faithfully

`Size.parse maxLen maxKeys r s` models `DefaultParser(input, r)` with `MaxInputLength = maxLen`,
`MaxObjectKeys = maxKeys` (after fixes F6–F8); `r.jsonString`/`r.jsonObject`/`r.disallowUnknown` are the
rule bits. `GoJson.Dec` models `json.Decoder` (`Token`, `More`).

* **Totality** (`no_panic`): the type assertion `t.(string)` on the key token cannot fail — at the top
  of every round of the member loop the decoder is where a key or `}` is expected
  (`Lemmas/JsonTokens.lean`, `Lemmas/SizeObject.lean`).
* **Gating** (`text_mode`, `gating`, `accepted_form`), **scalar forms** (`number_form`, `string_form`:
  the text rules with `RuleDisableUnit` ignored), **exactly one value** (`single_value`,
  `trailing_rejected`).
* **Objects, abstractly** (`Spec/SizeJson.lean`: `evalMembers` on a list of members):
  `object_value`, `unknown_deleted`/`unknown_inserted`, `order_independent`, `order_independent_reject`,
  `defects`, `too_many_members`.
* **Objects, concretely**: `object_loop_refinement`/`object_refinement` — on the compact JSON text of any
  member list (values: integer literals, plain strings, `true`/`false`/`null`, arrays and objects of any
  nesting) the parser computes `evalMembers`; hence `parse_order_independent` and `nested_unknown_skipped`
  for real input text.

Not covered here: well-formedness of the *consumed prefix* against an independent JSON grammar (the
tokenizer model, validated against `encoding/json`, is the definition of "well-formed"); renderings
with white space between tokens, escapes in strings, or fraction/exponent number literals in the
refinement theorems (the gating, totality, single-value and abstract theorems hold for all inputs).
-/
namespace U.Props.C12
open U U.GoJson U.JsonTokens U.Size U.SizeObject

/-! ## totality -/

/-- the parser never panics, whatever the input and configuration -/
theorem no_panic (maxLen maxKeys : Nat) (r : Rule) (s : Bytes) : Size.parse maxLen maxKeys r s ≠ .panic :=
  parse_ne_panic maxLen maxKeys r s

/-! ## which form is accepted -/

/-- without a JSON rule the input is read as text -/
theorem text_mode (maxLen maxKeys : Nat) (r : Rule) (s : Bytes)
    (h1 : r.jsonString = false) (h2 : r.jsonObject = false) (hl : maxLen = 0 ∨ s.length ≤ maxLen) :
    Size.parse maxLen maxKeys r s = unmarshalText r.disableUnit s := by
  rw [parse_text_mode _ _ _ _ h1 h2, if_neg (by omega)]

/-- with a JSON rule the first token decides: malformed ⇒ the decoder's error; `{` needs the object
rule; a string needs the string rule; `[` ⇒ `expectedObject`; `true`/`false`/`null` ⇒ `invalidType` -/
theorem gating (maxLen maxKeys : Nat) (r : Rule) (s : Bytes)
    (hj : r.jsonString = true ∨ r.jsonObject = true) (hl : maxLen = 0 ∨ s.length ≤ maxLen) :
    (∀ e, (Dec.init s).token = .error e → Size.parse maxLen maxKeys r s = .err (jerr e)) ∧
    (∀ d, (Dec.init s).token = .ok (.delim 123, d) → r.jsonObject = false →
      Size.parse maxLen maxKeys r s = .err .objectDisabled) ∧
    (∀ c d, (Dec.init s).token = .ok (.delim c, d) → c ≠ 123 →
      Size.parse maxLen maxKeys r s = .err .expectedObject) ∧
    (∀ t d, (Dec.init s).token = .ok (.str t, d) → r.jsonString = false →
      Size.parse maxLen maxKeys r s = .err .stringDisabled) ∧
    (∀ b d, (Dec.init s).token = .ok (.bool b, d) → Size.parse maxLen maxKeys r s = .err .invalidType) ∧
    (∀ d, (Dec.init s).token = .ok (.null, d) → Size.parse maxLen maxKeys r s = .err .invalidType) := by
  rw [parse_json_mode _ _ _ _ hj, if_neg (by omega)]
  exact ⟨fun e h => unmarshalJSON_token_error h, fun d h hr => unmarshalJSON_object_disabled h hr,
    fun c d h hc => unmarshalJSON_not_object h hc, fun t d h hr => unmarshalJSON_string_disabled h hr,
    fun b d h => unmarshalJSON_bool h, fun d h => unmarshalJSON_null h⟩

/-- whatever is accepted under a JSON rule starts with `{` (object rule on), a string (string rule on)
or a number -/
theorem accepted_form (maxLen maxKeys : Nat) (r : Rule) (s : Bytes) (z : Nat)
    (hj : r.jsonString = true ∨ r.jsonObject = true) (h : Size.parse maxLen maxKeys r s = .ok z) :
    ∃ tok d, (Dec.init s).token = .ok (tok, d) ∧
      ((tok = .delim 123 ∧ r.jsonObject = true) ∨ (∃ t, tok = .str t ∧ r.jsonString = true) ∨
        ∃ lit, tok = .num lit) := by
  rw [parse_json_mode _ _ _ _ hj] at h
  split at h
  · simp at h
  · cases ht : (Dec.init s).token with
    | error e => rw [unmarshalJSON_token_error ht] at h; simp at h
    | ok p =>
      obtain ⟨tok, d⟩ := p
      refine ⟨tok, d, rfl, ?_⟩
      cases tok with
      | delim c =>
        by_cases hc : c = 123
        · subst hc
          cases hr : r.jsonObject with
          | true => exact .inl ⟨rfl, rfl⟩
          | false => rw [unmarshalJSON_object_disabled ht hr] at h; simp at h
        · rw [unmarshalJSON_not_object ht hc] at h; simp at h
      | str t =>
        cases hr : r.jsonString with
        | true => exact .inr (.inl ⟨t, rfl, rfl⟩)
        | false => rw [unmarshalJSON_string_disabled ht hr] at h; simp at h
      | num lit => exact .inr (.inr ⟨lit, rfl⟩)
      | bool b => rw [unmarshalJSON_bool ht] at h; simp at h
      | null => rw [unmarshalJSON_null ht] at h; simp at h

/-! ## number and string forms -/

/-- a leading number literal `lit`: the text rules (units never disabled) if only white space follows,
otherwise `unexpectedData` or the decoder's error for what follows -/
theorem number_form (maxLen maxKeys : Nat) (r : Rule) (s lit : Bytes) (d : Dec)
    (hj : r.jsonString = true ∨ r.jsonObject = true) (hl : maxLen = 0 ∨ s.length ≤ maxLen)
    (ht : (Dec.init s).token = .ok (.num lit, d)) :
    (allSpace d.rest = true → Size.parse maxLen maxKeys r s = unmarshalText false lit) ∧
    (allSpace d.rest = false → Size.parse maxLen maxKeys r s = .err .unexpectedData ∨
      ∃ e, d.token = .error e ∧ e ≠ .eof ∧ Size.parse maxLen maxKeys r s = .err (jerr e)) := by
  rw [parse_json_mode _ _ _ _ hj, if_neg (by omega)]
  exact SizeObject.number_form ht

/-- a leading string with decoded text `t`, string rule on: likewise -/
theorem string_form (maxLen maxKeys : Nat) (r : Rule) (s t : Bytes) (d : Dec)
    (hr : r.jsonString = true) (hl : maxLen = 0 ∨ s.length ≤ maxLen)
    (ht : (Dec.init s).token = .ok (.str t, d)) :
    (allSpace d.rest = true → Size.parse maxLen maxKeys r s = unmarshalText false t) ∧
    (allSpace d.rest = false → Size.parse maxLen maxKeys r s = .err .unexpectedData ∨
      ∃ e, d.token = .error e ∧ e ≠ .eof ∧ Size.parse maxLen maxKeys r s = .err (jerr e)) := by
  rw [parse_json_mode _ _ _ _ (.inl hr), if_neg (by omega)]
  exact SizeObject.string_form ht hr

/-! ## exactly one value -/

/-- acceptance under a JSON rule means the decoder read one complete value — an object up to and
including its closing brace (F6) — and what is left of the input is a proper suffix consisting of JSON
white space only -/
theorem single_value (maxLen maxKeys : Nat) (r : Rule) (s : Bytes) (z : Nat)
    (hj : r.jsonString = true ∨ r.jsonObject = true) (h : Size.parse maxLen maxKeys r s = .ok z) :
    ∃ rest, restAfterValue maxKeys r s = some rest ∧ allSpace rest = true ∧ rest <:+ s ∧
      rest.length < s.length := by
  rw [parse_json_mode _ _ _ _ hj] at h
  split at h
  · simp at h
  · exact unmarshalJSON_consumed h

/-- anything but white space after a complete value is rejected -/
theorem trailing_rejected (maxLen maxKeys : Nat) (r : Rule) (s rest : Bytes)
    (hj : r.jsonString = true ∨ r.jsonObject = true)
    (hr : restAfterValue maxKeys r s = some rest) (hs : allSpace rest = false) :
    ∃ e, Size.parse maxLen maxKeys r s = .err e := by
  rw [parse_json_mode _ _ _ _ hj]
  split
  · exact ⟨_, rfl⟩
  · exact unmarshalJSON_trailing hr hs

/-! ## objects, abstractly -/

/-- one `value` member holding an unsigned 64-bit decimal, one `unit` member holding a string, other
members only if allowed, within the key limit: the result is `newSize value unit` -/
theorem object_value (maxKeys : Nat) (du : Bool) (ms : List Member) (kv lit ku s : Bytes)
    (hl : maxKeys = 0 ∨ ms.length ≤ maxKeys) (hv : vals ms = [(kv, .num lit)]) (hu : units ms = [(ku, .str s)])
    (hunk : du = true → unknowns ms = [])
    (h1 : lit ≠ []) (h2 : allDigits lit = true) (h3 : val lit < two64) :
    evalMembers maxKeys du ms = newSize (val lit) s :=
  evalMembers_object_value hl hv hu hunk h1 h2 h3

/-- deleting an unknown member anywhere keeps a successful result -/
theorem unknown_deleted (maxKeys : Nat) (du : Bool) (m : Member) (l1 l2 : List Member) (z : Nat)
    (hk : kind m = .unknown) (h : evalMembers maxKeys du (l1 ++ m :: l2) = .ok z) :
    evalMembers maxKeys du (l1 ++ l2) = .ok z :=
  evalMembers_delete_unknown hk h

/-- inserting a permitted unknown member anywhere keeps a successful result while the member count
stays within the limit -/
theorem unknown_inserted (maxKeys : Nat) (m : Member) (l1 l2 : List Member) (z : Nat)
    (hk : kind m = .unknown) (hl : maxKeys = 0 ∨ (l1 ++ l2).length + 1 ≤ maxKeys)
    (h : evalMembers maxKeys false (l1 ++ l2) = .ok z) :
    evalMembers maxKeys false (l1 ++ m :: l2) = .ok z :=
  evalMembers_insert_unknown hk rfl hl h

/-- the accepted objects are exactly those denoting a size, a condition that does not mention order -/
theorem accepts_iff_denotes (maxKeys : Nat) (du : Bool) (ms : List Member) (z : Nat) :
    evalMembers maxKeys du ms = .ok z ↔ Denotes maxKeys du ms z :=
  evalMembers_ok_iff

/-- success and the value do not depend on the order of the members -/
theorem order_independent (maxKeys : Nat) (du : Bool) (ms ms' : List Member) (hp : ms.Perm ms') (z : Nat) :
    evalMembers maxKeys du ms = .ok z ↔ evalMembers maxKeys du ms' = .ok z :=
  evalMembers_perm_ok hp z

/-- … and neither does rejection (which of several defects is reported may differ) -/
theorem order_independent_reject (maxKeys : Nat) (du : Bool) (ms ms' : List Member) (hp : ms.Perm ms') :
    (∃ e, evalMembers maxKeys du ms = .err e) → ∃ e, evalMembers maxKeys du ms' = .err e :=
  evalMembers_perm_err hp

/-- an object is rejected exactly when it has a defect: too many members, a duplicated or missing
`value`/`unit`, a wrongly typed member, a number that is not an unsigned 64-bit decimal, an unknown key
when those are disallowed, or a value-unit pair that `newSize` refuses -/
theorem defects (maxKeys : Nat) (du : Bool) (ms : List Member) :
    (∃ e, evalMembers maxKeys du ms = .err e) ↔ Defect maxKeys du ms :=
  evalMembers_err_iff

/-- the key-limit error is reported exactly when the limit is on, the object has more members than it
allows and the first `maxKeys + 1` members are read without another error -/
theorem too_many_members (maxKeys : Nat) (du : Bool) (ms : List Member) :
    evalMembers maxKeys du ms = .err .tooBig ↔
      maxKeys ≠ 0 ∧ ms.length > maxKeys ∧ ∃ v u, runSteps du none none (ms.take (maxKeys + 1)) = .ok (v, u) :=
  evalMembers_tooBig_iff

/-- limit 0 means no limit: the members are read in order, then the final check -/
theorem no_key_limit (du : Bool) (ms : List Member) :
    evalMembers 0 du ms = (runSteps du none none ms).bind fun p => finish p.1 p.2 :=
  evalLoop_unlimited

/-! ## objects, concretely -/

/-- the member loop of the parser, started after `{` on the compact text of `ms` followed by `}`,
computes `evalMembers` (here from any loop state) and stops in front of the brace -/
theorem object_loop_refinement (maxKeys : Nat) (du : Bool) (ms : List (Bytes × JVal)) (hms : wfMembers ms = true)
    (fuel i : Nat) (v : Option Nat) (u : Option Bytes) (rest : Bytes) (S : List TState)
    (hf : ms.length + 1 ≤ fuel) :
    objectLoop maxKeys du fuel i ⟨renderMembers ms ++ 125 :: rest, .objectStart, S⟩ v u =
      (evalLoop maxKeys du i v u (absMembers ms)).map
        (·, ⟨125 :: rest, if ms = [] then .objectStart else .objectComma, S⟩) :=
  objectLoop_render ms hms fuel i v u rest S hf

/-- the parser on the compact text of an object is `evalMembers` of its members -/
theorem object_refinement (maxLen maxKeys : Nat) (r : Rule) (ms : List (Bytes × JVal)) (hms : wfMembers ms = true)
    (hr : r.jsonObject = true) (hl : maxLen = 0 ∨ (renderObject ms).length ≤ maxLen) :
    Size.parse maxLen maxKeys r (renderObject ms) = evalMembers maxKeys r.disallowUnknown (absMembers ms) :=
  parse_renderObject ms hms hr hl

/-- member order in the input text does not matter -/
theorem parse_order_independent (maxLen maxKeys : Nat) (r : Rule) (ms ms' : List (Bytes × JVal))
    (hp : ms.Perm ms') (hms : wfMembers ms = true) (hms' : wfMembers ms' = true) (hr : r.jsonObject = true)
    (hl : maxLen = 0 ∨ ((renderObject ms).length ≤ maxLen ∧ (renderObject ms').length ≤ maxLen)) (z : Nat) :
    Size.parse maxLen maxKeys r (renderObject ms) = .ok z ↔
      Size.parse maxLen maxKeys r (renderObject ms') = .ok z := by
  rw [parse_renderObject ms hms hr (by omega), parse_renderObject ms' hms' hr (by omega)]
  exact evalMembers_perm_ok (hp.map _) z

/-- a permitted unknown member with a value of any nesting, anywhere in the text, has no effect on a
successful result -/
theorem nested_unknown_skipped (maxLen maxKeys : Nat) (r : Rule) (l1 l2 : List (Bytes × JVal)) (k : Bytes)
    (x : JVal) (hk : kind (k, x.abs) = .unknown) (hdu : r.disallowUnknown = false)
    (h1 : wfMembers (l1 ++ l2) = true) (h2 : wfMembers (l1 ++ (k, x) :: l2) = true) (hr : r.jsonObject = true)
    (hkeys : maxKeys = 0 ∨ (l1 ++ l2).length + 1 ≤ maxKeys)
    (hl : maxLen = 0 ∨ (renderObject (l1 ++ (k, x) :: l2)).length ≤ maxLen ∧
      (renderObject (l1 ++ l2)).length ≤ maxLen) (z : Nat) :
    Size.parse maxLen maxKeys r (renderObject (l1 ++ (k, x) :: l2)) = .ok z ↔
      Size.parse maxLen maxKeys r (renderObject (l1 ++ l2)) = .ok z := by
  rw [parse_renderObject _ h2 hr (by omega), parse_renderObject _ h1 hr (by omega)]
  simp only [absMembers, List.map_append, List.map_cons]
  rw [hdu]
  constructor
  · exact evalMembers_delete_unknown hk
  · intro h
    exact evalMembers_insert_unknown hk rfl (by simpa using hkeys) h

/-! ## non-vacuity -/

def dflt : Rule := ⟨false, true, true, false⟩       -- `DefaultRule`: string and object forms
def strict : Rule := ⟨false, true, true, true⟩      -- … and unknown keys disallowed
def objOnly : Rule := ⟨false, false, true, false⟩
def strOnly : Rule := ⟨false, true, false, false⟩
def textOnly : Rule := ⟨false, false, false, false⟩

example : Size.parse 128 16 dflt [123, 34, 118, 97, 108, 117, 101, 34, 58, 49, 44, 34, 117, 110, 105, 116, 34, 58, 34, 75, 105, 66, 34, 125] = .ok 1024 := by decide   -- {"value":1,"unit":"KiB"}
example : Size.parse 128 16 dflt [123, 34, 117, 110, 105, 116, 34, 58, 34, 75, 105, 66, 34, 44, 34, 118, 97, 108, 117, 101, 34, 58, 49, 125] = .ok 1024 := by decide   -- {"unit":"KiB","value":1}
example : Size.parse 128 16 dflt [123, 34, 86, 65, 76, 85, 69, 34, 58, 49, 44, 34, 85, 110, 105, 116, 34, 58, 34, 75, 105, 66, 34, 125] = .ok 1024 := by decide   -- {"VALUE":1,"Unit":"KiB"}
example : Size.parse 128 16 dflt [123, 34, 118, 97, 108, 117, 101, 34, 58, 49, 44, 34, 117, 110, 105, 116, 34, 58, 34, 75, 105, 66, 34, 125, 32, 32] = .ok 1024 := by decide   -- {"value":1,"unit":"KiB"}  
example : Size.parse 128 16 dflt [123, 34, 118, 97, 108, 117, 101, 34, 58, 49, 44, 34, 117, 110, 105, 116, 34, 58, 34, 75, 105, 66, 34] = .err .unexpectedData := by decide   -- {"value":1,"unit":"KiB"
example : Size.parse 128 16 dflt [123, 34, 118, 97, 108, 117, 101, 34, 58, 49, 44, 34, 117, 110, 105, 116, 34, 58, 34, 75, 105, 66, 34, 125, 32, 120] = .err .jsonSyntax := by decide   -- {"value":1,"unit":"KiB"} x
example : Size.parse 128 16 dflt [123, 34, 118, 97, 108, 117, 101, 34, 58, 49, 44, 34, 117, 110, 105, 116, 34, 58, 34, 75, 105, 66, 34, 125, 32, 49] = .err .unexpectedData := by decide   -- {"value":1,"unit":"KiB"} 1
example : Size.parse 128 16 dflt [49, 50, 32, 51, 52] = .err .unexpectedData := by decide   -- 12 34
example : Size.parse 128 16 dflt [123, 34, 118, 97, 108, 117, 101, 34, 58, 49, 125] = .err .missingUnit := by decide   -- {"value":1}
example : Size.parse 128 16 dflt [123, 34, 117, 110, 105, 116, 34, 58, 34, 66, 34, 125] = .err .missingValue := by decide   -- {"unit":"B"}
example : Size.parse 128 16 dflt [123, 34, 118, 97, 108, 117, 101, 34, 58, 49, 44, 34, 118, 97, 108, 117, 101, 34, 58, 50, 44, 34, 117, 110, 105, 116, 34, 58, 34, 66, 34, 125] = .err .dupValue := by decide   -- {"value":1,"value":2,"unit":"B"}
example : Size.parse 128 16 dflt [123, 34, 117, 110, 105, 116, 34, 58, 34, 66, 34, 44, 34, 117, 110, 105, 116, 34, 58, 34, 66, 34, 44, 34, 118, 97, 108, 117, 101, 34, 58, 49, 125] = .err .dupUnit := by decide   -- {"unit":"B","unit":"B","value":1}
example : Size.parse 128 16 dflt [123, 34, 118, 97, 108, 117, 101, 34, 58, 34, 49, 34, 44, 34, 117, 110, 105, 116, 34, 58, 34, 66, 34, 125] = .err .invalidType := by decide   -- {"value":"1","unit":"B"}
example : Size.parse 128 16 dflt [123, 34, 118, 97, 108, 117, 101, 34, 58, 49, 44, 34, 117, 110, 105, 116, 34, 58, 49, 125] = .err .invalidType := by decide   -- {"value":1,"unit":1}
example : Size.parse 128 16 dflt [123, 34, 118, 97, 108, 117, 101, 34, 58, 45, 49, 44, 34, 117, 110, 105, 116, 34, 58, 34, 66, 34, 125] = .err .numSyntax := by decide   -- {"value":-1,"unit":"B"}
example : Size.parse 128 16 dflt [123, 34, 120, 34, 58, 91, 49, 44, 123, 34, 121, 34, 58, 91, 93, 125, 93, 44, 34, 118, 97, 108, 117, 101, 34, 58, 49, 44, 34, 117, 110, 105, 116, 34, 58, 34, 66, 34, 125] = .ok 1 := by decide   -- {"x":[1,{"y":[]}],"value":1,"unit":"B"}
example : Size.parse 128 16 strict [123, 34, 120, 34, 58, 91, 49, 44, 123, 34, 121, 34, 58, 91, 93, 125, 93, 44, 34, 118, 97, 108, 117, 101, 34, 58, 49, 44, 34, 117, 110, 105, 116, 34, 58, 34, 66, 34, 125] = .err .unexpectedKey := by decide   -- {"x":[1,{"y":[]}],"value":1,"unit":"B"}
example : Size.parse 128 2 dflt [123, 34, 97, 34, 58, 48, 44, 34, 118, 97, 108, 117, 101, 34, 58, 49, 44, 34, 117, 110, 105, 116, 34, 58, 34, 66, 34, 125] = .err .tooBig := by decide   -- {"a":0,"value":1,"unit":"B"}
example : Size.parse 128 2 dflt [123, 34, 118, 97, 108, 117, 101, 34, 58, 49, 44, 34, 97, 34, 58, 48, 44, 34, 117, 110, 105, 116, 34, 58, 34, 66, 34, 125] = .err .tooBig := by decide   -- {"value":1,"a":0,"unit":"B"}
example : Size.parse 128 2 dflt [123, 34, 118, 97, 108, 117, 101, 34, 58, 49, 44, 34, 117, 110, 105, 116, 34, 58, 34, 66, 34, 44, 34, 97, 34, 58, 48, 125] = .err .tooBig := by decide   -- {"value":1,"unit":"B","a":0}
example : Size.parse 128 2 dflt [123, 34, 118, 97, 108, 117, 101, 34, 58, 49, 44, 34, 117, 110, 105, 116, 34, 58, 34, 66, 34, 125] = .ok 1 := by decide   -- {"value":1,"unit":"B"}
example : Size.parse 128 0 dflt [123, 34, 97, 34, 58, 48, 44, 34, 118, 97, 108, 117, 101, 34, 58, 49, 44, 34, 117, 110, 105, 116, 34, 58, 34, 66, 34, 125] = .ok 1 := by decide   -- {"a":0,"value":1,"unit":"B"}
example : Size.parse 128 16 dflt [34, 49, 75, 105, 66, 34] = .ok 1024 := by decide   -- "1KiB"
example : Size.parse 128 16 objOnly [34, 49, 75, 105, 66, 34] = .err .stringDisabled := by decide   -- "1KiB"
example : Size.parse 128 16 strOnly [123, 34, 118, 97, 108, 117, 101, 34, 58, 49, 44, 34, 117, 110, 105, 116, 34, 58, 34, 75, 105, 66, 34, 125] = .err .objectDisabled := by decide   -- {"value":1,"unit":"KiB"}
example : Size.parse 128 16 dflt [91, 49, 93] = .err .expectedObject := by decide   -- [1]
example : Size.parse 128 16 dflt [116, 114, 117, 101] = .err .invalidType := by decide   -- true
example : Size.parse 128 16 dflt [110, 117, 108, 108] = .err .invalidType := by decide   -- null
example : Size.parse 128 16 objOnly [49, 50] = .ok 12 := by decide   -- 12
example : Size.parse 128 16 dflt [49, 101, 51] = .err .invalidUnit := by decide   -- 1e3
example : Size.parse 128 16 dflt [49, 46, 48] = .err .invalidUnit := by decide   -- 1.0
example : Size.parse 128 16 dflt [45, 49] = .err .invalid := by decide   -- -1
example : Size.parse 128 16 dflt [] = .err .jsonEOF := by decide   -- 
example : Size.parse 128 16 textOnly [49, 75, 105, 66] = .ok 1024 := by decide   -- 1KiB

/-- the rendering used in the refinement theorems: `{"x":[1,{"y":[]}],"value":1,"unit":"B"}` -/
def sample : List (Bytes × JVal) :=
  [([120], .arr [.num [49], .obj [([121], .arr [])]]), (keyValue, .num [49]), (keyUnit, .str [66])]

example : renderObject sample = [123, 34, 120, 34, 58, 91, 49, 44, 123, 34, 121, 34, 58, 91, 93, 125, 93, 44, 34, 118, 97, 108, 117, 101, 34, 58, 49, 44, 34, 117, 110, 105, 116, 34, 58, 34, 66, 34, 125] := by decide
example : wfMembers sample = true := by decide
example : absMembers sample = [([120], .other), (keyValue, .num [49]), (keyUnit, .str [66])] := by decide
example : evalMembers 16 false (absMembers sample) = .ok 1 := by decide
example : evalMembers 2 false (absMembers sample) = .err .tooBig := by decide
example : evalMembers 16 true (absMembers sample) = .err .unexpectedKey := by decide

end U.Props.C12
