import UtilModel.Model.Extra
import UtilModel.Model.Hist
import UtilModel.Lemmas.Extra
/-!
# EXTRA — model coverage beyond the twenty properties (DESIGN.md §9.5)

Not one of C01–C20 and not registered in MANIFEST.json: the statements below describe exported behaviour
that no property speaks about (`sem.New/Core/IsZero`, the `date` accessors and `Time/Value`, the
package-level `Formatter`/`Parser` variables under an arbitrary replacement, the numeric-kind tables of
`constraint`). `bin/check EXTRA` audits them and runs the correspondence of `Model/Extra.lean`.

The `…_default` theorems show that the extension is conservative: with `DefaultFormatter` /
`DefaultParser` in the variables, the new functions are the existing model functions.
-/
namespace U.Props.EXTRA
open U U.Extra

/-! ## 1. sem: New, Core, IsZero, ZeroString -/

/-- `New` panics exactly when more than two extra strings are passed … -/
theorem sem_new_panics_iff (a b c : Nat) (xs : List Bytes) : Sem.new a b c xs = .panic ↔ 2 < xs.length :=
  Sem.new_panic_iff a b c xs

/-- … and otherwise builds exactly the fields: the first extra string is the pre-release, the second the build -/
theorem sem_new_fields (a b c : Nat) (xs : List Bytes) (h : xs.length ≤ 2) :
    Sem.new a b c xs = .ok ⟨a, b, c, xs.getD 0 [], xs.getD 1 []⟩ := Sem.new_fields a b c xs h

/-- `New` never returns an error and never validates its strings -/
theorem sem_new_no_error (a b c : Nat) (xs : List Bytes) (e : Err) : Sem.new a b c xs ≠ .err e := by
  unfold Sem.new
  split <;> simp

theorem sem_core_fields (v : Sem.Ver) :
    v.core.major = v.major ∧ v.core.minor = v.minor ∧ v.core.patch = v.patch ∧ v.core.pre = [] ∧ v.core.build = [] :=
  ⟨rfl, rfl, rfl, rfl, rfl⟩

theorem sem_core_idempotent (v : Sem.Ver) : v.core.core = v.core := rfl

/-- the core is `New` of the three numbers -/
theorem sem_core_eq_new (v : Sem.Ver) : Sem.new v.major v.minor v.patch [] = .ok v.core := rfl

/-- a version compares equal to its core iff it has no pre-release; otherwise it precedes it (the build plays no part) -/
theorem sem_compare_core (v : Sem.Ver) :
    (v.compare v.core = 0 ↔ v.pre = []) ∧ (v.compare v.core = -1 ↔ v.pre ≠ []) ∧
    (v.core.compare v = 0 ↔ v.pre = []) ∧ (v.core.compare v = 1 ↔ v.pre ≠ []) := by
  rw [Sem.compare_core, Sem.core_compare]
  by_cases h : v.pre = [] <;> simp [h]

/-- so `Latest` of a version and its core is the core, from either side, whenever they differ in precedence -/
theorem sem_latest_core (v : Sem.Ver) : v.core.latest v = v.core ∧ (v.pre ≠ [] → v.latest v.core = v.core) := by
  unfold Sem.Ver.latest
  rw [Sem.compare_core, Sem.core_compare]
  by_cases h : v.pre = [] <;> simp [h]

/-- the core is always a valid version, and `Next*` only look at the core -/
theorem sem_core_valid (v : Sem.Ver) : v.core.valid = .ok () := Sem.core_valid v

theorem sem_next_of_core (v : Sem.Ver) :
    v.core.nextMajor = v.nextMajor ∧ v.core.nextMinor = v.nextMinor ∧ v.core.nextPatch = v.nextPatch := ⟨rfl, rfl, rfl⟩

theorem sem_isZero_iff (v : Sem.Ver) : v.isZero = true ↔ v = Sem.Ver.zero := Sem.isZero_iff v

/-- the text of the zero version is the constant `ZeroString` (`ZeroStringTag` in tag form), and both parse back to it -/
theorem sem_zero_text :
    Sem.toString Sem.Ver.zero = Sem.zeroString ∧ Sem.stringTag Sem.Ver.zero = Sem.zeroStringTag ∧
    Sem.parseEntry Gen.sem_MaxInputLength .default Sem.zeroString = .ok Sem.Ver.zero ∧
    Sem.parseEntry Gen.sem_MaxInputLength .parseTag Sem.zeroStringTag = .ok Sem.Ver.zero :=
  ⟨Sem.zero_text.1, Sem.zero_text.2, Sem.zero_parse.1, Sem.zero_parse.2⟩

theorem sem_isZero_text (v : Sem.Ver) (h : v.isZero = true) : Sem.toString v = Sem.zeroString := by
  rw [(Sem.isZero_iff v).1 h]; exact Sem.zero_text.1

example : Sem.new 1 2 3 [[97], [98], [99]] = .panic := by decide
example : Sem.new 1 2 3 [[48, 49], [43]] = .ok ⟨1, 2, 3, [48, 49], [43]⟩ := by decide   -- "01", "+": not validated
example : (⟨1, 2, 3, [97], [98]⟩ : Sem.Ver).compare (⟨1, 2, 3, [97], [98]⟩ : Sem.Ver).core = -1 := by decide
example : (⟨0, 0, 0, [], [98]⟩ : Sem.Ver).isZero = false := by decide

/-! ## 2. date: Year, Month, Day, Date, Time, Value -/

/-- the three accessors are the components of `Date()` -/
theorem date_accessors (d : Date.Date) : (d.yearOf, d.monthOf, d.dayOf) = d.date := Date.accessors_eq_date d

/-- for a date built by `New` from a real calendar date whose year fits `int32` they return what was passed -/
theorem date_accessors_new {y : Int} {m : Nat} {d : Int} (hv : GoTime.ValidDate y m d)
    (hy : -2147483648 ≤ y ∧ y < 2147483648) :
    (Date.new y m d).yearOf = y ∧ (Date.new y m d).monthOf = m ∧ ((Date.new y m d).dayOf : Int) = d :=
  Date.accessors_new hv hy

/-- `Value()` is `Time()` with a nil error; `Time()` is a midnight: day number of the date, times 86400 s -/
theorem date_value_is_time (d : Date.Date) :
    d.value = .ok d.timeAbs ∧ d.timeAbs % 86400 = 0 ∧ d.timeAbs = (d.ordinal - 1) * 86400 :=
  ⟨rfl, Date.timeAbs_midnight d, Date.timeAbs_eq_ordinal d⟩

theorem date_time_new {y : Int} {m : Nat} {d : Int} (hv : GoTime.ValidDate y m d)
    (hy : -2147483647 ≤ y ∧ y < 2147483648) :
    (Date.new y m d).timeAbs = (GoTime.ordinal y m d - 1) * 86400 := Date.timeAbs_new hv hy

/-- the instant reads back as the date's own year, month and day, and `FromTime(d.Time()) = d` -/
theorem date_time_round_trip {d : Date.Date} (h : Date.Proper d) :
    d.timeCivil = (d.yearOf, d.monthOf, (d.dayOf : Int)) ∧ Date.fromTime d.timeAbs 0 0 = d :=
  ⟨Date.timeCivil_proper h, Date.fromTime_timeAbs h⟩

/-- `Before` on dates is `<` on their instants -/
theorem date_before_iff_time {d e : Date.Date} (hd : Date.Proper d) (he : Date.Proper e) :
    d.before e = true ↔ d.timeAbs < e.timeAbs := Date.before_iff_time hd he

example : (Date.new 2024 2 29).yearOf = 2024 ∧ (Date.new 2024 2 29).monthOf = 2 ∧ (Date.new 2024 2 29).dayOf = 29 := by decide
example : (Date.new 1970 1 1).timeAbs = 62135596800 := by decide
example : (Date.new 2024 14 35).timeCivil = (2025, 3, 7) := by decide

/-! ## 3. the `Formatter` and `Parser` variables -/

/-- date: with `DefaultFormatter` in the variable every entry point is the existing model function -/
theorem date_formatter_default (d : Date.Date) (verb : Nat) :
    Date.stringWith Date.defaultFmt d = Date.toString d ∧
    Date.marshalTextWith Date.defaultFmt d = .ok (Date.marshalText d) ∧
    Date.formatVerbWith Date.defaultFmt d verb = Date.formatVerb d verb := ⟨rfl, rfl, rfl⟩

/-- date: a replacement's text is used as it is; when it errs, `String` and the verbs fall back to
    `DefaultFormatter` with the same flags, and `MarshalText` returns that error (never a panic) -/
theorem date_formatter_replaced (F : Fmt Date.Date) (d : Date.Date) (verb : Nat) :
    (∀ b, F [] d 0 = .ok b → Date.stringWith F d = b ∧ Date.marshalTextWith F d = .ok b) ∧
    (∀ t, F [] d 0 = .err t → Date.stringWith F d = Date.toString d ∧ Date.marshalTextWith F d = .err t) ∧
    (∀ b, F [] d (Date.flagsByVerb verb) = .ok b → Date.formatVerbWith F d verb = b) ∧
    (∀ t, F [] d (Date.flagsByVerb verb) = .err t → Date.formatVerbWith F d verb = Date.formatVerb d verb) ∧
    Date.marshalTextWith F d ≠ .panic := by
  refine ⟨fun b h => ⟨?_, ?_⟩, fun t h => ⟨?_, ?_⟩, fun b h => ?_, fun t h => ?_, toRes_ne_panic _⟩
  all_goals simp only [Date.stringWith, Date.formatVerbWith, Date.formatWith, Date.marshalTextWith, orDefault, h, FOut.toRes]
  all_goals rfl

theorem roman_formatter_default (df n verb : Nat) :
    Roman.stringWith Roman.defaultFmt df n = Roman.format [] n df ∧
    Roman.marshalTextWith Roman.defaultFmt df n = .ok (Roman.format [] n df) ∧
    Roman.formatVerbWith Roman.defaultFmt df n verb = Roman.format [] n (Roman.flagsByVerb verb df) := ⟨rfl, rfl, rfl⟩

/-- roman: as for date; the flags of `String` / `MarshalText` are the variable `DefaultFormat` -/
theorem roman_formatter_replaced (F : Fmt Nat) (df n verb : Nat) :
    (∀ b, F [] n df = .ok b → Roman.stringWith F df n = b ∧ Roman.marshalTextWith F df n = .ok b) ∧
    (∀ t, F [] n df = .err t → Roman.stringWith F df n = Roman.format [] n df ∧ Roman.marshalTextWith F df n = .err t) ∧
    (∀ b, F [] n (Roman.flagsByVerb verb df) = .ok b → Roman.formatVerbWith F df n verb = b) ∧
    (∀ t, F [] n (Roman.flagsByVerb verb df) = .err t →
      Roman.formatVerbWith F df n verb = Roman.format [] n (Roman.flagsByVerb verb df)) ∧
    Roman.marshalTextWith F df n ≠ .panic := by
  refine ⟨fun b h => ⟨?_, ?_⟩, fun t h => ⟨?_, ?_⟩, fun b h => ?_, fun t h => ?_, toRes_ne_panic _⟩
  all_goals simp only [Roman.stringWith, Roman.formatVerbWith, Roman.formatWith, Roman.marshalTextWith, orDefault, h, FOut.toRes]
  all_goals rfl

theorem sem_formatter_default (v : Sem.Ver) (verb : Nat) :
    Sem.stringWith Sem.defaultFmt v = Sem.toString v ∧ Sem.stringTagWith Sem.defaultFmt v = Sem.stringTag v ∧
    Sem.marshalTextWith Sem.defaultFmt v = .ok (Sem.marshalText v) ∧
    Sem.formatVerbWith Sem.defaultFmt v verb = Sem.formatVerb v verb := ⟨rfl, rfl, rfl, rfl⟩

/-- sem: `String` asks with flags 0, `StringTag` with `FormatTag`; each falls back on its own -/
theorem sem_formatter_replaced (F : Fmt Sem.Ver) (v : Sem.Ver) (verb : Nat) :
    (∀ b, F [] v 0 = .ok b → Sem.stringWith F v = b ∧ Sem.marshalTextWith F v = .ok b) ∧
    (∀ t, F [] v 0 = .err t → Sem.stringWith F v = Sem.toString v ∧ Sem.marshalTextWith F v = .err t) ∧
    (∀ b, F [] v Gen.sem_FormatTag = .ok b → Sem.stringTagWith F v = b) ∧
    (∀ t, F [] v Gen.sem_FormatTag = .err t → Sem.stringTagWith F v = Sem.stringTag v) ∧
    (∀ b, F [] v (Sem.flagsByVerb verb) = .ok b → Sem.formatVerbWith F v verb = b) ∧
    (∀ t, F [] v (Sem.flagsByVerb verb) = .err t → Sem.formatVerbWith F v verb = Sem.formatVerb v verb) ∧
    Sem.marshalTextWith F v ≠ .panic := by
  refine ⟨fun b h => ⟨?_, ?_⟩, fun t h => ⟨?_, ?_⟩, fun b h => ?_, fun t h => ?_, fun b h => ?_, fun t h => ?_, toRes_ne_panic _⟩
  all_goals simp only [Sem.stringWith, Sem.stringTagWith, Sem.formatVerbWith, Sem.formatWith, Sem.marshalTextWith, orDefault, h, FOut.toRes]
  all_goals rfl

theorem uu_formatter_default (i : UU.ID) (verb : Nat) :
    UU.stringWith UU.defaultFmt i = UU.toString i ∧ UU.marshalTextWith UU.defaultFmt i = .ok (UU.marshalText i) ∧
    UU.formatVerbWith UU.defaultFmt i verb = UU.formatVerb i verb ∧ UU.urnWith UU.defaultFmt i = i.urn := ⟨rfl, rfl, rfl, rfl⟩

/-- uu: as for date; `URN()` does not depend on the variable at all -/
theorem uu_formatter_replaced (F : Fmt UU.ID) (i : UU.ID) (verb : Nat) :
    (∀ b, F [] i 0 = .ok b → UU.stringWith F i = b ∧ UU.marshalTextWith F i = .ok b) ∧
    (∀ t, F [] i 0 = .err t → UU.stringWith F i = UU.toString i ∧ UU.marshalTextWith F i = .err t) ∧
    (∀ b, F [] i (UU.flagsByVerb verb) = .ok b → UU.formatVerbWith F i verb = b) ∧
    (∀ t, F [] i (UU.flagsByVerb verb) = .err t → UU.formatVerbWith F i verb = UU.formatVerb i verb) ∧
    UU.marshalTextWith F i ≠ .panic ∧ UU.urnWith F i = i.urn := by
  refine ⟨fun b h => ⟨?_, ?_⟩, fun t h => ⟨?_, ?_⟩, fun b h => ?_, fun t h => ?_, toRes_ne_panic _, rfl⟩
  all_goals simp only [UU.stringWith, UU.formatVerbWith, UU.formatWith, UU.marshalTextWith, orDefault, h, FOut.toRes]
  all_goals rfl

theorem size_formatter_default (c : Size.MarshalCfg) (s : Nat) :
    Size.stringWith Size.defaultFmt s = Size.toString s ∧
    Size.prettyStringWith Size.defaultFmt s = .ok (Size.prettyString s) ∧
    Size.prettyHTMLWith Size.defaultFmt s = .ok (Size.prettyHTML s) ∧
    Size.marshalTextWith c Size.defaultFmt s = .ok (Size.marshalText c s) ∧
    Size.marshalJSONWith c Size.defaultFmt s = .ok (Size.marshalJSON c s) := by
  refine ⟨rfl, rfl, rfl, ?_, ?_⟩
  · unfold Size.marshalTextWith Size.marshalText; split <;> rfl
  · unfold Size.marshalJSONWith Size.marshalJSON Size.marshalTextWith Size.marshalText
    cases c.disableJSONObject <;> cases c.disableJSONString <;> cases c.disableTextUnit <;> rfl

/-- size: `String` falls back to the plain byte count, `PrettyString` / `PrettyHTML` panic exactly when the
    replacement errs -/
theorem size_formatter_replaced (F : Fmt Nat) (s : Nat) :
    (∀ b, F [] s 0 = .ok b → Size.stringWith F s = b) ∧
    (∀ t, F [] s 0 = .err t → Size.stringWith F s = Size.bytesString s) ∧
    (Size.prettyStringWith F s = .panic ↔ ∃ t, F [] s Gen.size_FormatPretty = .err t) ∧
    (Size.prettyHTMLWith F s = .panic ↔ ∃ t, F [] s (Gen.size_FormatPretty ||| Gen.size_FormatHTML) = .err t) ∧
    (∀ b, F [] s Gen.size_FormatPretty = .ok b → Size.prettyStringWith F s = .ok b) ∧
    (∀ t, Size.prettyStringWith F s ≠ .err t) := by
  refine ⟨fun b h => by unfold Size.stringWith; rw [h], fun t h => by unfold Size.stringWith; rw [h]; rfl, ?_, ?_,
    fun b h => by unfold Size.prettyStringWith Size.prettyWith; rw [h], ?_⟩
  · unfold Size.prettyStringWith Size.prettyWith
    cases F [] s Gen.size_FormatPretty <;> simp
  · unfold Size.prettyHTMLWith Size.prettyWith
    cases F [] s (Gen.size_FormatPretty ||| Gen.size_FormatHTML) <;> simp
  · intro t
    unfold Size.prettyStringWith Size.prettyWith
    cases F [] s Gen.size_FormatPretty <;> simp

/-- size: which marshal forms read the variable. `MarshalText` without `DisableMarshalTextUnit`, and through it
    the JSON string form; the object form, the number form and the unit-less text never do. An error of the
    replacement comes back as the error of `MarshalText` / `MarshalJSON` exactly in those cases. -/
theorem size_marshal_replaced (c : Size.MarshalCfg) (F : Fmt Nat) (s t : Nat) :
    (c.disableTextUnit = true → Size.marshalTextWith c F s = .ok (Size.bytesString s)) ∧
    (c.disableTextUnit = false → Size.marshalTextWith c F s = (F [] s 0).toRes) ∧
    (c.disableJSONObject = false → Size.marshalJSONWith c F s = .ok (Size.marshalJSONObject s)) ∧
    (c.disableJSONObject = true → c.disableJSONString = true → Size.marshalJSONWith c F s = .ok (Size.bytesString s)) ∧
    (Size.marshalJSONWith c F s = .err t ↔
      c.disableJSONObject = true ∧ c.disableJSONString = false ∧ c.disableTextUnit = false ∧ F [] s 0 = .err t) ∧
    Size.marshalTextWith c F s ≠ .panic ∧ Size.marshalJSONWith c F s ≠ .panic := by
  unfold Size.marshalJSONWith Size.marshalTextWith Size.bytesString
  cases c.disableJSONObject <;> cases c.disableJSONString <;> cases c.disableTextUnit <;>
    cases F [] s 0 <;> simp [FOut.toRes]

/-- what the string form is made of: the replacement's bytes between two quotes, not escaped -/
theorem size_marshalJSON_string_form (c : Size.MarshalCfg) (F : Fmt Nat) (s : Nat) (b : Bytes)
    (h1 : c.disableJSONObject = true) (h2 : c.disableJSONString = false) (h3 : c.disableTextUnit = false)
    (h : F [] s 0 = .ok b) : Size.marshalJSONWith c F s = .ok (34 :: b ++ [34]) := by
  unfold Size.marshalJSONWith Size.marshalTextWith
  simp [h1, h2, h3, h, FOut.toRes]

/-- `UnmarshalText` under an arbitrary parser: the receiver is assigned exactly when the parser succeeds, and is
    left as it was — whatever value the parser returned next to its error — otherwise (all five types) -/
theorem unmarshal_replaced {V} (recv : V) (o : POut V) :
    (∀ v, o = .ok v → assign recv o = (v, .ok)) ∧
    (∀ e, o = .err e → assign recv o = (recv, .err e)) ∧
    (o = .panic → assign recv o = (recv, .panic)) ∧
    ((assign recv o).2 = .ok ↔ ∃ v, o = .ok v) := by
  refine ⟨fun v h => by rw [h]; rfl, fun e h => by rw [h]; rfl, fun h => by rw [h]; rfl, assign_ok_iff recv o⟩

/-- the rule argument each entry point passes to the variable: 0 everywhere except size, where `UnmarshalText`
    passes `DefaultRule & RuleDisableUnit` and `UnmarshalJSON` passes `DefaultRule` -/
theorem unmarshal_rule_passed (dr n : Nat) (s : Bytes) :
    (∀ (P : Prs Date.Date) r, Date.unmarshalTextWith P r s = assign r (P s 0)) ∧
    (∀ (P : Prs Nat) r, Roman.unmarshalTextWith P r s = assign r (P s 0)) ∧
    (∀ (P : Prs Sem.Ver) r, Sem.unmarshalTextWith P r s = assign r (P s 0)) ∧
    (∀ (P : Prs UU.ID) r, UU.unmarshalTextWith P r s = assign r (P s 0)) ∧
    (∀ (P : Prs Nat), Size.unmarshalTextWith P dr n s = assign n (P s (dr &&& Gen.size_RuleDisableUnit))) ∧
    (∀ (P : Prs Nat), Size.unmarshalJSONWith P dr n s = assign n (P s dr)) :=
  ⟨fun _ _ => rfl, fun _ _ => rfl, fun _ _ => rfl, fun _ _ => rfl, fun _ => rfl, fun _ => rfl⟩

/-- with `DefaultParser` in the variables, `UnmarshalText` / `UnmarshalJSON` are the calls of the receiver
    histories of C17 (`Model/Hist.lean`): same receiver afterwards, same result -/
theorem unmarshal_default_is_hist (s : Bytes) :
    (∀ r, Hist.step (.date r) (.text s) =
      (.date (Date.unmarshalTextWith Date.defaultPrs r s).1, (Date.unmarshalTextWith Date.defaultPrs r s).2.toHist)) ∧
    (∀ r, Hist.step (.roman r) (.text s) =
      (.roman (Roman.unmarshalTextWith Roman.defaultPrs r s).1, (Roman.unmarshalTextWith Roman.defaultPrs r s).2.toHist)) ∧
    (∀ r, Hist.step (.sem r) (.text s) =
      (.sem (Sem.unmarshalTextWith Sem.defaultPrs r s).1, (Sem.unmarshalTextWith Sem.defaultPrs r s).2.toHist)) ∧
    (∀ r, Hist.step (.uu r) (.text s) =
      (.uu (UU.unmarshalTextWith UU.defaultPrs r s).1, (UU.unmarshalTextWith UU.defaultPrs r s).2.toHist)) ∧
    (∀ r, Hist.step (.size r) (.text s) =
      (.size (Size.unmarshalTextWith Size.defaultPrs Gen.size_DefaultRule r s).1,
       (Size.unmarshalTextWith Size.defaultPrs Gen.size_DefaultRule r s).2.toHist)) ∧
    (∀ r, Hist.step (.size r) (.json s) =
      (.size (Size.unmarshalJSONWith Size.defaultPrs Gen.size_DefaultRule r s).1,
       (Size.unmarshalJSONWith Size.defaultPrs Gen.size_DefaultRule r s).2.toHist)) := by
  refine ⟨fun r => ?_, fun r => ?_, fun r => ?_, fun r => ?_, fun r => ?_, fun r => ?_⟩
  · exact keep_eq_assign r Hist.Recv.date _
  · exact keep_eq_assign r Hist.Recv.roman _
  · exact keep_eq_assign r Hist.Recv.sem _
  · exact keep_eq_assign r Hist.Recv.uu _
  · exact keep_eq_assign r Hist.Recv.size _
  · exact keep_eq_assign r Hist.Recv.size _

-- a formatter that always fails: String falls back, MarshalText fails, PrettyString panics
example : Date.stringWith (Script.fmt ⟨[88], 1, 7⟩) (Date.new 2024 2 29) = [50,48,50,52,45,48,50,45,50,57] := by decide
example : Date.marshalTextWith (Script.fmt ⟨[88], 1, 7⟩) (Date.new 2024 2 29) = .err 7 := by decide
example : Size.prettyStringWith (Script.fmt ⟨[88], 1, 7⟩) 1024 = .panic := by decide
example : Size.stringWith (Script.fmt ⟨[88], 1, 7⟩) 1024 = [49, 48, 50, 52] := by decide
-- a formatter that fails only for flags 0: String falls back but StringTag uses it
example : Sem.stringWith (Script.fmt ⟨[88], 2, 7⟩) ⟨1, 2, 3, [], []⟩ = [49,46,50,46,51] ∧
    Sem.stringTagWith (Script.fmt ⟨[88], 2, 7⟩) ⟨1, 2, 3, [], []⟩ = [88, 49] := by decide
example : Size.marshalJSONWith ⟨false, false, true⟩ (Script.fmt ⟨[34], 0, 7⟩) 5 = .ok [34, 34, 48, 34] := by decide
example : Roman.unmarshalTextWith (PScript.prsNat ⟨500, 1, 9⟩) 7 [73] = (7, .err (.custom 9)) := by decide
example : Size.unmarshalTextWith (PScript.prsNat ⟨300, 3, 9⟩) 7 5 [49] = (5, .err (.custom 9)) ∧
    Size.unmarshalTextWith (PScript.prsNat ⟨300, 3, 9⟩) 6 5 [49] = (301, .ok) := by decide

/-! ## 4. constraint: the numeric kinds -/
open Constraint in
/-- `Max` of an integer kind is the bound `size.Bytes[N]` accepts up to (`Kind.maxInt` of the size model, C08) -/
theorem constraint_max_is_size_bound (k : Size.Kind) (hk : isFloat k = false) : max k = .int k.maxInt := by
  cases k <;> first | rfl | (exact absurd hk (by decide))

open Constraint in
/-- … stated on `Bytes[N]` itself: it succeeds exactly for sizes up to `Max[N]()` -/
theorem constraint_bytes_bound (k : Size.Kind) (hk : isFloat k = false) (s : Nat) :
    (Size.bytesAs k s).2 = true ↔ NumVal.le (.int s) (max k) = true := by
  have hb : Size.bytesAs k s = if s ≤ k.maxInt then (s, true) else (0, false) := by
    cases k <;> first | rfl | exact absurd hk (by decide)
  rw [hb, constraint_max_is_size_bound k hk, Constraint.NumVal.le_int]
  by_cases h : s ≤ k.maxInt
  · simp only [h, if_true, decide_eq_true_eq, true_iff]; omega
  · simp only [h, if_false, decide_eq_true_eq]
    constructor
    · intro h'; exact absurd h' (by simp)
    · intro h'; omega

set_option exponentiation.threshold 2100 in
open Constraint in
/-- `Min ≤ 0 ≤ Max`, `0 < SmallestNonzero ≤ Max`, signed kinds are exactly those with a negative minimum -/
theorem constraint_order (k : Size.Kind) :
    (min k).le .zero = true ∧ NumVal.zero.le (max k) = true ∧
    NumVal.zero.lt (smallestNonzero k) = true ∧ (smallestNonzero k).le (max k) = true ∧
    (isSigned k = true ↔ (min k).lt .zero = true) := by
  cases k <;> decide

open Constraint in
/-- integer kinds: two's-complement bounds of the kind's width; `SizeBits = 8 · SizeBytes` for every kind -/
theorem constraint_int_bounds (k : Size.Kind) (hk : isFloat k = false) :
    sizeBits k = 8 * sizeBytes k ∧ smallestNonzero k = .int 1 ∧
    max k = .int (if isSigned k then 2 ^ (sizeBits k - 1) - 1 else 2 ^ sizeBits k - 1) ∧
    min k = .int (if isSigned k then -(2 ^ (sizeBits k - 1)) else 0) := by
  cases k <;> first | (exact absurd hk (by decide)) | decide

open Constraint in
/-- float kinds: `Max = (2^p − 1)·2^(emax − p + 1)`, `Min = −Max`, `SmallestNonzero = 2^(emin − p + 1)` with
    (p, emin, emax) = (24, −126, 127) and (53, −1022, 1023); the mantissas have exactly the `p` bits that
    `size.Bytes[float…]` rounds to (C08) -/
theorem constraint_float_bounds :
    Constraint.max Size.Kind.float32 = NumVal.flt (2 ^ 24 - 1) (127 - 24 + 1) ∧
    Constraint.min Size.Kind.float32 = NumVal.flt (-(2 ^ 24 - 1)) (127 - 24 + 1) ∧
    smallestNonzero Size.Kind.float32 = NumVal.flt 1 (-126 - 24 + 1) ∧
    Constraint.max Size.Kind.float64 = NumVal.flt (2 ^ 53 - 1) (1023 - 53 + 1) ∧
    Constraint.min Size.Kind.float64 = NumVal.flt (-(2 ^ 53 - 1)) (1023 - 53 + 1) ∧
    smallestNonzero Size.Kind.float64 = NumVal.flt 1 (-1022 - 53 + 1) ∧
    sizeBits Size.Kind.float32 = 32 ∧ sizeBits Size.Kind.float64 = 64 ∧
    Size.bitLen (2 ^ 24 - 1) = 24 ∧ Size.bitLen (2 ^ 53 - 1) = 53 := by decide

example : Constraint.max .int16 = .int 32767 ∧ Constraint.min .int16 = .int (-32768) := by decide
set_option exponentiation.threshold 2100 in
example : Constraint.NumVal.lt (Constraint.smallestNonzero .float64) (Constraint.smallestNonzero .float32) = true := by decide
set_option exponentiation.threshold 2100 in
example : Constraint.NumVal.lt (Constraint.max .uint64) (Constraint.max .float32) = true := by decide

/-! ## 6. error messages (`errors.go` of every package) -/
section ErrMsg
open U.ErrMsg

/-- The error of an over-long input is a function of the two lengths only: two inputs of the same length get
the same message, whatever their bytes (C18's "the message does not reproduce the input", in the model). -/
theorem errmsg_too_long_ignores_content (p : Pkg) (fn s t : Bytes) (max : Nat) (h : s.length = t.length) :
    tooLongMessage p fn s max = tooLongMessage p fn t max := by
  unfold tooLongMessage; rw [h]

/-- … and it is exactly `<pkg>.<Func>: input too long: <len> > <max>`. -/
theorem errmsg_too_long_text (p : Pkg) (fn s : Bytes) (max : Nat) :
    tooLongMessage p fn s max = p.name ++ 46 :: fn ++ sep ++ tooLongText s.length max := by
  simp [tooLongMessage, message]

/-- … and ends with the text of the wrapped error, or with the package's fallback text when there is none -/
theorem errmsg_suffix (p : Pkg) (fn input : Bytes) (e : Option Bytes) :
    ∃ front, message p fn input e = front ++ (match e with | some t => t | none => p.fallback) := by
  cases input with
  | nil => exact ⟨p.name ++ 46 :: fn ++ sep, by cases e <;> simp [message]⟩
  | cons c s =>
    exact ⟨p.name ++ 46 :: fn ++ sep ++ p.lead ++ quote (c :: s) ++ sep,
      by cases e <;> simp [message]⟩

/-- an empty input is never quoted; a non-empty one appears as `"…"` between the function name and the cause -/
theorem errmsg_empty_input (p : Pkg) (fn : Bytes) (e : Option Bytes) :
    message p fn [] e = p.name ++ 46 :: fn ++ sep ++ (match e with | some t => t | none => p.fallback) := by
  cases e <;> simp [message]

theorem errmsg_quoted_input (p : Pkg) (fn : Bytes) (c : Nat) (s : Bytes) (e : Option Bytes) :
    message p fn (c :: s) e =
      p.name ++ 46 :: fn ++ sep ++ p.lead ++ quote (c :: s) ++ sep ++ (match e with | some t => t | none => p.fallback) := by
  cases e <;> simp [message]

/-- The same through `UnmarshalText`, which wraps the parser's error: the whole text is
`<pkg>.<Type>.UnmarshalText: <pkg>.<Func>: input too long: <len> > <max>` and depends on the input's length only. -/
theorem errmsg_unmarshalText_too_long (p : Pkg) (fn s t : Bytes) (max : Nat) (h : s.length = t.length) :
    unmarshalTextTooLong p fn s max = unmarshalTextTooLong p fn t max ∧
    unmarshalTextTooLong p fn s max =
      unmarshalTextWrap p (p.name ++ 46 :: fn ++ sep ++ tooLongText s.length max) := by
  unfold unmarshalTextTooLong
  rw [errmsg_too_long_ignores_content p fn s t max h, errmsg_too_long_text, h]
  exact ⟨rfl, rfl⟩

/-- every message starts with `<pkg>.<Func>: ` -/
theorem errmsg_prefix (p : Pkg) (fn input : Bytes) (e : Option Bytes) :
    ∃ rest, message p fn input e = p.name ++ 46 :: fn ++ sep ++ rest := by
  cases input with
  | nil => exact ⟨_, errmsg_empty_input p fn e⟩
  | cons c s =>
    cases e with
    | none => exact ⟨p.lead ++ quote (c :: s) ++ sep ++ p.fallback, by simp [message]⟩
    | some t => exact ⟨p.lead ++ quote (c :: s) ++ sep ++ t, by simp [message]⟩

private theorem hexDigit_printable (n : Nat) (h : n < 16) : 32 ≤ hexDigit n ∧ hexDigit n ≤ 126 := by
  unfold hexDigit; split <;> omega

private theorem quoteByte_printable (c : Nat) (hc : c < 128) : ∀ x ∈ quoteByte c, 32 ≤ x ∧ x ≤ 126 := by
  intro x hx
  unfold quoteByte at hx
  have h1 := hexDigit_printable (c / 16) (by omega)
  have h2 := hexDigit_printable (c % 16) (by omega)
  repeat' split at hx
  all_goals (simp [hex2] at hx; omega)

/-- Quoting an ASCII input yields printable ASCII only: no control byte of a rejected input reaches the message. -/
theorem quote_printable (s : Bytes) (h : quoteModelled s = true) : ∀ x ∈ quote s, 32 ≤ x ∧ x ≤ 126 := by
  have body : ∀ s : Bytes, quoteModelled s = true → ∀ x ∈ quoteBody s, 32 ≤ x ∧ x ≤ 126 := by
    intro s
    induction s with
    | nil => intro _ x hx; simp [quoteBody] at hx
    | cons c s ih =>
      intro h x hx
      simp [quoteModelled] at h
      simp [quoteBody] at hx
      rcases hx with hx | hx
      · exact quoteByte_printable c h.1 x hx
      · exact ih (by simpa [quoteModelled] using h.2) x hx
  intro x hx
  simp [quote] at hx
  rcases hx with hx | hx | hx
  · omega
  · exact body s h x hx
  · omega

/-- a quoted byte is one byte, a two-byte escape or `\xhh` -/
theorem quoteByte_length (c : Nat) : (quoteByte c).length = 1 ∨ (quoteByte c).length = 2 ∨ (quoteByte c).length = 4 := by
  unfold quoteByte; repeat' split
  all_goals simp [hex2]

/-- the quoted text is at least as long as the input plus the two quotation marks and at most four times as long -/
theorem quote_length (s : Bytes) : s.length + 2 ≤ (quote s).length ∧ (quote s).length ≤ 4 * s.length + 2 := by
  have body : ∀ s : Bytes, s.length ≤ (quoteBody s).length ∧ (quoteBody s).length ≤ 4 * s.length := by
    intro s
    induction s with
    | nil => simp [quoteBody]
    | cons c s ih =>
      have := quoteByte_length c
      simp [quoteBody]; omega
  have := body s
  simp [quote]; omega

private theorem hexDigitUpper_range (n : Nat) (h : n < 16) :
    (48 ≤ hexDigitUpper n ∧ hexDigitUpper n ≤ 57) ∨ (65 ≤ hexDigitUpper n ∧ hexDigitUpper n ≤ 70) := by
  unfold hexDigitUpper; split <;> omega

private theorem hexDigitUpper_inj (a b : Nat) (ha : a < 16) (hb : b < 16) (h : hexDigitUpper a = hexDigitUpper b) : a = b := by
  unfold hexDigitUpper at h; split at h <;> split at h <;> omega

/-- `uu.InvalidDigitError`: the text always ends with the code point `U+00XX` of the offending byte (followed by `)` when
the byte is also shown as a character), and different bytes get different code points. -/
theorem invalidDigit_names_code_point (c : Nat) :
    ∃ front, invalidDigitText c = front ++ codePoint c ++ (if isGraphicByte c then [41] else []) := by
  unfold invalidDigitText
  cases isGraphicByte c
  · exact ⟨[105, 110, 118, 97, 108, 105, 100, 32, 100, 105, 103, 105, 116, 32], by simp⟩
  · exact ⟨[105, 110, 118, 97, 108, 105, 100, 32, 100, 105, 103, 105, 116, 32, 39] ++ utf8Latin1 c ++ [39, 32, 40], by simp [List.append_assoc]⟩

theorem codePoint_injective (c d : Nat) (hc : c < 256) (hd : d < 256) (h : codePoint c = codePoint d) : c = d := by
  simp [codePoint] at h
  have h1 := hexDigitUpper_inj (c / 16) (d / 16) (by omega) (by omega) h.1
  have h2 := hexDigitUpper_inj (c % 16) (d % 16) (by omega) (by omega) h.2
  omega

/-- for an ASCII byte the whole text is printable ASCII: a control byte is named by its code point only -/
theorem invalidDigit_ascii_printable (c : Nat) (hc : c < 128) : ∀ x ∈ invalidDigitText c, 32 ≤ x ∧ x ≤ 126 := by
  intro x hx
  have r1 := hexDigitUpper_range (c / 16) (by omega)
  have r2 := hexDigitUpper_range (c % 16) (by omega)
  unfold invalidDigitText at hx
  by_cases g : isGraphicByte c = true
  · have hg : 32 ≤ c ∧ c ≤ 126 := by
      simp [isGraphicByte] at g; omega
    simp [g, utf8Latin1, hc, codePoint] at hx
    omega
  · simp [g, codePoint] at hx
    omega

example : invalidDigitText 103 = [105, 110, 118, 97, 108, 105, 100, 32, 100, 105, 103, 105, 116, 32, 39, 103, 39, 32, 40, 85, 43, 48, 48, 54, 55, 41] := by decide
example : invalidDigitText 173 = [105, 110, 118, 97, 108, 105, 100, 32, 100, 105, 103, 105, 116, 32, 85, 43, 48, 48, 65, 68] := by decide
example : quote [97, 34, 10, 1] = [34, 97, 92, 34, 92, 110, 92, 120, 48, 49, 34] := by decide
example : message .size [80] [49, 32, 120] none =
    [115, 105, 122, 101, 46, 80, 58, 32, 112, 97, 114, 115, 105, 110, 103, 32, 34, 49, 32, 120, 34, 58, 32,
     117, 110, 97, 98, 108, 101, 32, 116, 111, 32, 112, 97, 114, 115, 101] := by decide
example : tooLongMessage .date [80] (List.replicate 11 120) 10 = tooLongMessage .date [80] (List.replicate 11 0) 10 := rfl

end ErrMsg

end U.Props.EXTRA
