import UtilModel.Lemmas.SizeRoundTrip
/-!
# C04 — A size survives every marshal form and configuration

For every 64-bit size `s` and each of the eight `MarshalCfg` values (text unit on/off, JSON string
form on/off, JSON object form on/off) the output of the model of `MarshalText` / `MarshalJSON`
parses back to `s` through the model of `DefaultParser` under the default rule — `UnmarshalText` masks
the rule with `ruleUnmarshalTextMask` (plain text parser, units allowed), `UnmarshalJSON` uses
`DefaultRule` (JSON string and object forms enabled; a bare JSON number is always accepted) — for
every input limit that the output fits (0 = none; every output is at most 43 bytes, so the default
limit 128 never interferes) and every key limit of at least two keys (0 = none; default 16).
`String()` (`format [] s 0`) and `PrettyString()` (`format [] s FormatPretty`, digits grouped with
spaces) parse back as text as well. The JSON decoder is the model of `encoding/json`'s streaming
`Token`/`More` (`Model/GoJson.lean`). Nesting inside `encoding/json` containers (struct fields,
slices, map values) is exercised on the implementation only (harness).
-/
namespace U.Props.C04
open U U.Size

/-- the rules the two unmarshal entry points use by default -/
theorem default_rules :
    Rule.ofNat (Gen.size_DefaultRule &&& Gen.size_ruleUnmarshalTextMask) = ⟨false, false, false, false⟩ ∧
    Rule.ofNat Gen.size_DefaultRule = ⟨false, true, true, false⟩ ∧ two64 = 2 ^ 64 := by decide

/-- **short outputs**: text forms have at most 23 bytes (20 digits + `EiB`), JSON forms and the pretty
rendering at most 43 — below the default input limit -/
theorem marshal_length_le (cfg : MarshalCfg) (s : Nat) (hs : s < two64) :
    (marshalText cfg s).length ≤ 23 ∧ (marshalJSON cfg s).length ≤ 43 ∧
    (Size.format [] s 0).length ≤ 23 ∧ (Size.format [] s Gen.size_FormatPretty).length ≤ 43 ∧
    43 ≤ Gen.size_MaxInputLength :=
  ⟨marshalText_length cfg s hs, marshalJSON_length cfg s hs, format_plain_length s hs,
   format_pretty_length s hs, by decide⟩

/-- **text round trip**, any limit the text fits -/
theorem text_roundtrip (maxLen maxKeys : Nat) (cfg : MarshalCfg) (s : Nat) (hs : s < two64)
    (hlen : maxLen = 0 ∨ (marshalText cfg s).length ≤ maxLen) :
    Size.parse maxLen maxKeys (Rule.ofNat (Gen.size_DefaultRule &&& Gen.size_ruleUnmarshalTextMask))
      (marshalText cfg s) = .ok s := by
  rw [default_rules.1]
  unfold Size.parse
  rw [if_neg (by omega)]
  exact unmarshalText_marshalText cfg s hs

/-- **JSON round trip** (object, string and number form), any limit the text fits, any key limit ≥ 2 -/
theorem json_roundtrip (maxLen maxKeys : Nat) (cfg : MarshalCfg) (s : Nat) (hs : s < two64)
    (hlen : maxLen = 0 ∨ (marshalJSON cfg s).length ≤ maxLen) (hkeys : maxKeys = 0 ∨ 2 ≤ maxKeys) :
    Size.parse maxLen maxKeys (Rule.ofNat Gen.size_DefaultRule) (marshalJSON cfg s) = .ok s := by
  rw [default_rules.2.1]
  unfold Size.parse
  rw [if_neg (by omega)]
  exact unmarshalJSON_marshalJSON maxKeys hkeys _ rfl rfl cfg s hs

/-- **`String()` round trip** -/
theorem string_roundtrip (maxLen maxKeys : Nat) (s : Nat) (hs : s < two64)
    (hlen : maxLen = 0 ∨ (Size.format [] s 0).length ≤ maxLen) :
    Size.parse maxLen maxKeys (Rule.ofNat (Gen.size_DefaultRule &&& Gen.size_ruleUnmarshalTextMask))
      (Size.format [] s 0) = .ok s := by
  rw [default_rules.1]
  unfold Size.parse
  rw [if_neg (by omega), format_plain]
  exact unmarshalText_plain s hs

/-- **`PrettyString()` round trip**: the digit-group spaces and the space before the unit are skipped -/
theorem pretty_roundtrip (maxLen maxKeys : Nat) (s : Nat) (hs : s < two64)
    (hlen : maxLen = 0 ∨ (Size.format [] s Gen.size_FormatPretty).length ≤ maxLen) :
    Size.parse maxLen maxKeys (Rule.ofNat (Gen.size_DefaultRule &&& Gen.size_ruleUnmarshalTextMask))
      (Size.format [] s Gen.size_FormatPretty) = .ok s := by
  rw [default_rules.1]
  unfold Size.parse
  rw [if_neg (by omega), format_pretty]
  exact unmarshalText_spaced _ s hs

/-- **the default configuration**: limits `MaxInputLength` and `MaxObjectKeys`, all four renderings -/
theorem default_roundtrip (cfg : MarshalCfg) (s : Nat) (hs : s < two64) :
    let rt := Rule.ofNat (Gen.size_DefaultRule &&& Gen.size_ruleUnmarshalTextMask)
    let p := Size.parse Gen.size_MaxInputLength Gen.size_MaxObjectKeys
    p rt (marshalText cfg s) = .ok s ∧ p (Rule.ofNat Gen.size_DefaultRule) (marshalJSON cfg s) = .ok s ∧
    p rt (Size.format [] s 0) = .ok s ∧ p rt (Size.format [] s Gen.size_FormatPretty) = .ok s := by
  obtain ⟨h1, h2, h3, h4, h5⟩ := marshal_length_le cfg s hs
  exact ⟨text_roundtrip _ _ cfg s hs (by omega), json_roundtrip _ _ cfg s hs (by omega) (by decide),
    string_roundtrip _ _ s hs (by omega), pretty_roundtrip _ _ s hs (by omega)⟩

/-! non-vacuity: concrete outputs and their parses -/
example : marshalJSON ⟨false, false, false⟩ (1536 * 1024) =
    [123,34,118,97,108,117,101,34,58,49,53,51,54,44,34,117,110,105,116,34,58,34,75,105,66,34,125] := by decide  -- {"value":1536,"unit":"KiB"}
example : marshalJSON ⟨false, false, true⟩ 1024 = [34, 49, 75, 105, 66, 34] := by decide     -- "1KiB"
example : marshalJSON ⟨true, false, true⟩ 1024 = [34, 49, 48, 50, 52, 34] := by decide       -- "1024"
example : marshalJSON ⟨false, true, true⟩ 1024 = [49, 48, 50, 52] := by decide               -- 1024
example : marshalText ⟨false, false, false⟩ (2 ^ 60) = [49, 69, 105, 66] := by decide        -- 1EiB
example : Size.format [] 1023 1 = [49, 32, 48, 50, 51, 32, 66] := by decide                  -- "1 023 B"
example : Size.parse 128 16 (Rule.ofNat 6) (marshalJSON ⟨false, false, false⟩ (1536 * 1024)) = .ok (1536 * 1024) := by decide
example : Size.parse 128 16 (Rule.ofNat 6) (marshalJSON ⟨false, false, false⟩ 0) = .ok 0 := by decide
example : Size.parse 128 16 (Rule.ofNat 6) (marshalJSON ⟨false, false, true⟩ 1023) = .ok 1023 := by decide
example : Size.parse 128 16 (Rule.ofNat 6) (marshalJSON ⟨true, true, true⟩ 1) = .ok 1 := by decide
example : Size.parse 128 16 (Rule.ofNat 0) (marshalText ⟨false, false, false⟩ (2 ^ 60)) = .ok (2 ^ 60) := by decide
example : Size.parse 128 16 (Rule.ofNat 0) (marshalText ⟨true, false, false⟩ 1024) = .ok 1024 := by decide
example : Size.parse 128 16 (Rule.ofNat 0) (Size.format [] 1023 1) = .ok 1023 := by decide
example : Size.parse 128 16 (Rule.ofNat 6) (marshalJSON ⟨false, false, false⟩ (2 ^ 64 - 1)) = .ok (2 ^ 64 - 1) := by decide
example : Size.parse 128 16 (Rule.ofNat 6) (marshalJSON ⟨false, true, true⟩ (2 ^ 64 - 1)) = .ok (2 ^ 64 - 1) := by decide
example : Size.parse 128 16 (Rule.ofNat 0) (Size.format [] (2 ^ 64 - 1) 1) = .ok (2 ^ 64 - 1) := by decide
example : (Size.format [] (2 ^ 64 - 1) 1).length = 28 ∧ (marshalJSON ⟨false, false, false⟩ (2 ^ 64 - 1)).length = 41 := by decide
/-- the limit hypotheses matter: a limit of 3 rejects `1KiB`, one key is not enough for the object form -/
example : Size.parse 3 16 (Rule.ofNat 0) (marshalText ⟨false, false, false⟩ 1024) = .err .tooLong := by decide
example : Size.parse 128 1 (Rule.ofNat 6) (marshalJSON ⟨false, false, false⟩ 1024) = .err .tooBig := by decide

end U.Props.C04
