import UtilModel.Model.Prelude
import UtilModel.Gen.Facts
/-!
# Model of package `roman` (after fixes F1, F2)

Tables, flag values and the long-form overrides come from `Gen.Facts` (re-extracted from the
source on every run); the control flow is transliterated by hand.
-/
namespace U.Roman
open U

def hasFlag (f bit : Nat) : Bool := f &&& bit != 0

/-- `toHundreds` / `toTens` / `toUnits`: the long-form overrides in source order, then the table -/
def toGroup (long : List (Nat × Nat × Bytes)) (table : List Bytes) (value f : Nat) : Bytes :=
  match long.find? (fun e => value == e.1 && hasFlag f e.2.1) with
  | some e => e.2.2
  | none => table.getD value []

def toHundreds (value f : Nat) : Bytes := toGroup Gen.roman_toHundreds_long Gen.roman_hundreds value f
def toTens (value f : Nat) : Bytes := toGroup Gen.roman_toTens_long Gen.roman_tens value f
def toUnits (value f : Nat) : Bytes := toGroup Gen.roman_toUnits_long Gen.roman_units value f

/-- `toLower` on one byte: the switch table from the source -/
def lowerByte (b : Nat) : Nat :=
  match Gen.roman_toLower.find? (fun e => e.1 == b) with
  | some e => e.2
  | none => b

/-- upper-case numeral of `n` under flags `f` (before the case flag is applied) -/
def numeral (n f : Nat) : Bytes :=
  List.replicate (n / 1000) Gen.roman_thousand
    ++ toHundreds (n % 1000 / 100) f ++ toTens (n % 100 / 10) f ++ toUnits (n % 10) f

/-- `DefaultFormatter(buf, n, f)` (F2: only the appended bytes are lower-cased) -/
def format (buf : Bytes) (n f : Nat) : Bytes :=
  if n = 0 then buf
  else
    let s := numeral n f
    if hasFlag f Gen.roman_FormatLowerCase then buf ++ s.map lowerByte else buf ++ s

/-- `formatByVerb` -/
def flagsByVerb (verb defaultFormat : Nat) : Nat :=
  match Gen.roman_verbs.find? (fun e => e.1 == verb) with
  | some e => e.2.getD defaultFormat
  | none => Gen.roman_verbDefault.getD defaultFormat

/-! ## parser -/

def eqCI (c u : Nat) : Bool := c == u || c == u + 32

/-- strip a maximal run of `u` (either case) -/
def spanCI (u : Nat) : Bytes → Bytes × Bytes
  | c :: t => if eqCI c u then let (a, b) := spanCI u t; (c :: a, b) else ([], c :: t)
  | [] => ([], [])

/-- one `(F?O{0,4}|OF|OT)` group at the head of `s` (either case): returns (group, rest).
    The decomposition is unique: no later group starts with `F` or `T`, so an `O` followed by
    `F`/`T` can only be subtractive. -/
def scanGroup (one five ten : Nat) (s : Bytes) : Option (Bytes × Bytes) :=
  match s with
  | a :: b :: t =>
    if eqCI a one && (eqCI b five || eqCI b ten) then some ([a, b], t)
    else
      let (f, r) := if eqCI a five then ([a], b :: t) else ([], s)
      let (os, r') := spanCI one r
      if os.length ≤ 4 then some (f ++ os, r') else none
  | _ =>
    let (f, r) := match s with
      | a :: t => if eqCI a five then ([a], t) else ([], s)
      | [] => ([], [])
    let (os, r') := spanCI one r
    if os.length ≤ 4 then some (f ++ os, r') else none

/-- language and captures of `(?i)^(M*)(D?C{0,4}|CD|CM)(L?X{0,4}|XL|XC)(V?I{0,4}|IV|IX)$` -/
def shape (s : Bytes) : Option (Bytes × Bytes × Bytes × Bytes) :=
  let (ms, r0) := spanCI 77 s
  match scanGroup 67 68 77 r0 with
  | none => none
  | some (h, r1) =>
    match scanGroup 88 76 67 r1 with
    | none => none
    | some (t, r2) =>
      match scanGroup 73 86 88 r2 with
      | none => none
      | some (u, r3) => if r3.isEmpty then some (ms, h, t, u) else none

/-- `parseGroup(input, unit, digit5, digit10)` (F1): `eqCI c d` is `c == d || c == d+lowerShift` -/
def parseGroup (input : Bytes) (unit digit5 digit10 : Nat) : Outcome Nat :=
  let l := input.length
  if l = 0 then .ok 0
  else match input[0]? with
    | none => .panic
    | some c0 =>
      if eqCI c0 digit5 then .ok ((4 + l) * unit)
      else if l = 1 then .ok unit
      else match input[1]? with
        | none => .panic
        | some c1 =>
          if eqCI c1 digit5 then .ok (4 * unit)
          else if eqCI c1 digit10 then .ok (9 * unit)
          else .ok (l * unit)

/-- `checkInputLength`: `.ok true` = empty input accepted as zero -/
def checkInputLength (maxLen : Nat) (disableEmpty : Bool) (s : Bytes) : Outcome Bool :=
  let l := s.length
  if l = 0 then (if disableEmpty then .err .invalid else .ok true)
  else if maxLen ≠ 0 ∧ l > maxLen then .err .tooLong
  else .ok false

def sumGroups : List (Nat × Nat × Nat) → List Bytes → Nat → Outcome Nat
  | g :: gs, p :: ps, acc =>
    match parseGroup p g.1 g.2.1 g.2.2 with
    | .ok v => sumGroups gs ps (acc + v)
    | .err e => .err e
    | .panic => .panic
  | [], _, acc => .ok acc
  | _ :: _, [], _ => .panic   -- p[i+2] out of range

/-- `DefaultParser(input, r)` -/
def parse (maxLen : Nat) (disableEmpty : Bool) (s : Bytes) : Outcome Nat :=
  match checkInputLength maxLen disableEmpty s with
  | .err e => .err e
  | .panic => .panic
  | .ok true => .ok 0
  | .ok false =>
    match shape s with
    | none => .err .invalid
    | some (ms, h, t, u) =>
      (sumGroups Gen.roman_groups [h, t, u] (ms.length * 1000)).map (· % two64)

/-- `Valid(input, r)` : `.ok ()` = nil error -/
def valid (maxLen : Nat) (disableEmpty : Bool) (s : Bytes) : Outcome Unit :=
  match checkInputLength maxLen disableEmpty s with
  | .err e => .err e
  | .panic => .panic
  | .ok true => .ok ()
  | .ok false => if (shape s).isSome then .ok () else .err .invalid

end U.Roman
