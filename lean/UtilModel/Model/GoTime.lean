import UtilModel.Model.Prelude
/-!
# The part of Go's `time` package that `date` relies on, as an executable contract

Proleptic Gregorian calendar over `Int` years. `ordinal y m d` is the day number with
0001-01-01 ↦ 1; `civil` is its inverse, computed with the 400/100/4/1-year cycle arithmetic that
Go's `absDate` uses. That the Go runtime implements this contract is validated by correspondence
(`time.*`, `date.new`, `date.add` … lines of the protocol); it is not proved here.
-/
namespace U.GoTime

def isLeap (y : Int) : Bool := (y % 4 == 0 && y % 100 != 0) || y % 400 == 0

def yearLen (y : Int) : Int := if isLeap y then 366 else 365

/-- days before January 1 of year `y`; year 1 ↦ 0 -/
def dby (y : Int) : Int :=
  365 * (y - 1) + (y - 1) / 4 - (y - 1) / 100 + (y - 1) / 400

/-- days before the first of month `m` in a non-leap year (`daysBefore` table of package time) -/
def dbm : Nat → Int
  | 1 => 0 | 2 => 31 | 3 => 59 | 4 => 90 | 5 => 120 | 6 => 151
  | 7 => 181 | 8 => 212 | 9 => 243 | 10 => 273 | 11 => 304 | 12 => 334
  | _ => 365

def leapAdj (y : Int) (m : Nat) : Int := if isLeap y && decide (3 ≤ m) then 1 else 0

def daysInL (leap : Bool) (m : Nat) : Nat :=
  if m = 2 then (if leap then 29 else 28)
  else if m = 4 ∨ m = 6 ∨ m = 9 ∨ m = 11 then 30 else 31

def daysIn (y : Int) (m : Nat) : Nat := daysInL (isLeap y) m

/-- day number of year `y`, month `m ∈ 1..12`, day `d` (any integer: days simply add) -/
def ordinal (y : Int) (m : Nat) (d : Int) : Int := dby y + dbm m + leapAdj y m + d

/-- `time.Date(y, m, d, 0,0,0,0, UTC)` day number with month overflow normalised into the year -/
def ordinalNorm (y m d : Int) : Int :=
  let m0 := m - 1
  ordinal (y + m0 / 12) ((m0 % 12).toNat + 1) d

/-- year and zero-based day of year from zero-based day number (0 ↦ 0001-01-01) -/
def yearOf (n : Int) : Int × Int :=
  let n400 := n / 146097
  let r0 := n % 146097
  let n100' := r0 / 36524
  let n100 := if n100' = 4 then 3 else n100'
  let r1 := r0 - 36524 * n100
  let n4 := r1 / 1461
  let r2 := r1 % 1461
  let n1' := r2 / 365
  let n1 := if n1' = 4 then 3 else n1'
  let r3 := r2 - 365 * n1
  (1 + 400 * n400 + 100 * n100 + 4 * n4 + n1, r3)

/-- walk the months from `m` with a zero-based day offset `yd` (fuel = months left after `m`) -/
def monthDayFrom (leap : Bool) : Nat → Nat → Int → Nat × Int
  | 0, m, yd => (m, yd + 1)
  | f + 1, m, yd =>
    if yd < daysInL leap m then (m, yd + 1) else monthDayFrom leap f (m + 1) (yd - daysInL leap m)

/-- month (1..12) and day (1..) from leap flag and zero-based day of year -/
def monthDay (leap : Bool) (yd : Int) : Nat × Int := monthDayFrom leap 11 1 yd

/-- `t.Date()` of the instant at midnight of day number `n` -/
def civil (n : Int) : Int × Nat × Int :=
  let (y, yd) := yearOf (n - 1)
  let (m, d) := monthDay (isLeap y) yd
  (y, m, d)

def nsPerDay : Int := 86400000000000
def nsPerHour : Int := 3600000000000
def maxDur : Int := 9223372036854775807
def minDur : Int := -9223372036854775808

/-- `time.Time.Sub` between two midnights: exact when representable, else saturated -/
def subDays (a b : Int) : Int :=
  let d := (a - b) * nsPerDay
  if d > maxDur then maxDur else if d < minDur then minDur else d

/-- `int(dur.Hours() / 24)` (float arithmetic is exact on the values that occur, see DESIGN §3) -/
def hoursDiv24 (dur : Int) : Int := Int.tdiv (Int.tdiv dur nsPerHour) 24

end U.GoTime
