import UtilModel.Model.Date
import UtilModel.Model.Roman
import UtilModel.Model.Sem
import UtilModel.Model.Size
import UtilModel.Model.UU
/-!
# Receivers under histories of unmarshal / scan calls (C17)

One receiver variable per type, driven by a list of calls. Package globals are at their source
defaults (`Gen.*`). `step` returns the receiver after the call and the call's result; the real
receiver is compared with the model after every call by the correspondence run.
-/
namespace U.Hist
open U

inductive Recv where
  | date (d : Date.Date) | roman (n : Nat) | sem (v : Sem.Ver) | size (n : Nat) | uu (i : UU.ID)
  deriving DecidableEq, Repr

inductive HOp where
  | text (s : Bytes)                 -- UnmarshalText
  | json (s : Bytes)                 -- UnmarshalJSON (size)
  | binary (s : Bytes)               -- UnmarshalBinary (date)
  | scanTime (sec nsec off : Int)    -- Scan(time.Time) (date); sec = unix seconds
  | scanOther                        -- Scan(anything else) (date)
  deriving DecidableEq, Repr

inductive Res where
  | ok | err (e : Err) | panic | unsupported
  deriving DecidableEq, Repr

def keep {α} (r : Recv) (mk : α → Recv) : Outcome α → Recv × Res
  | .ok a => (mk a, .ok)
  | .err e => (r, .err e)
  | .panic => (r, .panic)

/-- `Date.UnmarshalBinary` statement by statement (F4): the three field assignments come after every check -/
def dateUnmarshalBinary (r : Date.Date) (bs : Bytes) : Date.Date × Res :=
  match Date.unmarshalBinary bs with
  | .ok d =>
    let r1 := { r with year := d.year }
    let r2 := { r1 with month := d.month }
    let r3 := { r2 with day := d.day }
    (r3, .ok)
  | .err e => (r, .err e)
  | .panic => (r, .panic)

def unixToAbs : Int := 62135596800

def step (r : Recv) (op : HOp) : Recv × Res :=
  match r, op with
  | .date _, .text s => keep r .date (Date.unmarshalText Gen.date_MaxInputLength s)
  | .date d, .binary s => let (d', res) := dateUnmarshalBinary d s; (.date d', res)
  | .date _, .scanTime sec nsec off => (.date (Date.fromTime (sec + unixToAbs) nsec off), .ok)
  | .date _, .scanOther => (r, .err .invalidType)
  | .roman _, .text s => keep r .roman (Roman.parse Gen.roman_MaxInputLength false s)
  | .sem _, .text s => keep r .sem (Sem.parseEntry Gen.sem_MaxInputLength .default s)
  | .size _, .text s =>
    keep r .size (Size.parse Gen.size_MaxInputLength Gen.size_MaxObjectKeys
      (Size.Rule.ofNat (Gen.size_DefaultRule &&& Gen.size_ruleUnmarshalTextMask)) s)
  | .size _, .json s =>
    keep r .size (Size.parse Gen.size_MaxInputLength Gen.size_MaxObjectKeys (Size.Rule.ofNat Gen.size_DefaultRule) s)
  | .uu _, .text s => keep r .uu (UU.parse Gen.uu_MaxInputLength false false s)
  | _, _ => (r, .unsupported)

/-- run a history, collecting the receiver and result after every call -/
def run : Recv → List HOp → List (Recv × Res)
  | _, [] => []
  | r, op :: ops => let (r', res) := step r op; (r', res) :: run r' ops

def final (r : Recv) (ops : List HOp) : Recv := ops.foldl (fun r op => (step r op).1) r

end U.Hist
