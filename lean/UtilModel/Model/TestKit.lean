import UtilModel.Model.Prelude
/-!
# Model of package `test` (the six marshal-test helpers) over scripted behaviours

A *case* is scripted: constraint, before/after hooks, error predicate, what the type's
Marshal*/Unmarshal* does, expected data/value. The helpers are transliterated over small models of
the `testify/assert` functions they call (and of a scripted custom `TypeHelper`); the output is, per case, whether a failure was reported,
plus whether `FailNow` was called.
-/
namespace U.TestKit
open U

inductive Hook where
  | nil | ok | err | panic
  deriving DecidableEq, Repr

inductive Pred where
  | none | any | eq (t : Bytes) | pre (t : Bytes) | suf (t : Bytes)
  | re (compiles hit : Bool)     -- `hit` = the pattern matches the (known part of the) error text
  deriving DecidableEq, Repr

/-- marshaler behaviour: produced bytes (`none` = nil slice, `some []` = empty non-nil) and error -/
inductive MBeh where
  | data (d : Option Bytes)
  | err (text : Bytes) (d : Option Bytes)
  | panic (text : Bytes)
  deriving DecidableEq, Repr

/-- unmarshaler behaviour: optionally store a value, then succeed, fail or panic -/
inductive UBeh where
  | ok (set : Option Int)
  | err (text : Bytes) (set : Option Int)
  | panic (text : Bytes) (set : Option Int)
  deriving DecidableEq, Repr

structure Case where
  constraint : Nat
  before : Hook
  after : Hook
  pred : Pred
  mbeh : MBeh
  ubeh : UBeh
  data : Option Bytes    -- expected data (`none` = nil `[]byte`, only distinguishable in the binary helper)
  value : Int            -- expected value
  deriving DecidableEq, Repr

inductive TypeKind where
  | tv    -- value-receiver Marshal*, pointer-receiver Unmarshal*
  | tp    -- pointer receivers only, used as a value type
  | ptp   -- pointer to such a type
  | tn    -- no methods
  deriving DecidableEq, Repr

inductive Helper where
  | mt | ut | mb | ub | mj | uj
  deriving DecidableEq, Repr

def Helper.isMarshal : Helper → Bool
  | .mt | .mb | .mj => true
  | _ => false

def Helper.isBinary : Helper → Bool
  | .mb | .ub => true
  | _ => false

/-- the error seen by the helper: none, a known text, or `panic: <text>\n<stack>` (stack unknown, non-empty) -/
inductive ErrV where
  | none | text (t : Bytes) | panicked (t : Bytes)
  deriving DecidableEq, Repr

def ErrV.isNil : ErrV → Bool
  | .none => true | _ => false

def panicPrefix : Bytes := [112, 97, 110, 105, 99, 58, 32]   -- "panic: "

/-- the known part of the message -/
def ErrV.known : ErrV → Bytes
  | .none => [] | .text t => t | .panicked t => panicPrefix ++ t ++ [10]

def isPrefixOf : Bytes → Bytes → Bool
  | [], _ => true
  | _ :: _, [] => false
  | a :: as, b :: bs => a == b && isPrefixOf as bs

/-! ## the assertion functions: `(result, reported)` -/

/-- the `AssertErrorFunc`s of error.go -/
def applyPred (p : Pred) (e : ErrV) : Bool × Bool :=
  match p with
  | .none => (true, false)                                   -- not called
  | .any => (!e.isNil, e.isNil)                              -- assert.Error
  | .eq t =>                                                 -- assert.EqualError
    match e with
    | .none => (false, true)
    | .text m => (m == t, m != t)
    | .panicked _ => (false, true)
  | .pre t =>                                                -- assert.Error then assert.True(HasPrefix)
    if e.isNil then (false, true)
    else let ok := isPrefixOf t e.known; (ok, !ok)
  | .suf t =>
    match e with
    | .none => (false, true)
    | .text m => let ok := isPrefixOf t.reverse m.reverse; (ok, !ok)
    | .panicked _ => (false, true)                           -- generators never combine suffix with panic
  | .re compiles hit =>                                      -- assert.Error; MatchString; assert.NoError(compileErr)
    if e.isNil then (false, true)
    else if compiles && hit then (true, false)
    else (false, !compiles)

def hookFails : Hook → Bool
  | .err | .panic => true
  | _ => false

def isForMarshal (c : Nat) : Bool := c == 0 || c == 1
def isForUnmarshal (c : Nat) : Bool := c == 0 || c == 2

/-- `assert.Equal(c.Data, string(b))` (text, JSON) / `assert.Equal(c.Data, b)` on `[]byte` (binary) -/
def dataEqual (binary : Bool) (expected got : Option Bytes) : Bool :=
  if binary then
    match expected, got with
    | none, none => true
    | none, some _ => false
    | some _, none => false
    | some a, some b => a == b
  else expected.getD [] == got.getD []

/-- result of the scripted marshal call: bytes and error as the helper sees them -/
def marshalResult : MBeh → Option Bytes × ErrV
  | .data d => (d, .none)
  | .err t d => (d, .text t)
  | .panic t => (none, .panicked t)

/-- one applicable case of `MarshalText/Binary/JSON`: was a failure reported? -/
def marshalCase (binary : Bool) (c : Case) : Bool :=
  if hookFails c.before then true
  else
    let (b, err) := marshalResult c.mbeh
    if hookFails c.after then true
    else match c.pred with
      | .none => if !err.isNil then true else !dataEqual binary c.data b
      | p =>
        let (res, rep) := applyPred p err
        if res then rep || b.isSome      -- assert.Nil(b): an empty non-nil slice is not nil
        else rep

/-! ## the `TypeHelper[T]` argument of the Unmarshal helpers

`none` is the nil helper (`reflect`/`assert.Empty`/`assert.Equal`). A custom helper is scripted by four
numbers; its three methods are deliberately unlike the defaults: `New` does not return a zero value,
`AssertEmpty` has its own idea of "empty", and `AssertEqual` is **asymmetric** in (expected, actual). -/
structure HelperBeh where
  start : Int       -- `New(value)` returns a fresh value holding `start`, plus `value` when `addArg`
  addArg : Bool
  emptyIs : Int     -- `AssertEmpty(t, v, _)` reports iff `v ≠ emptyIs`
  eqMod : Nat       -- `AssertEqual(t, expected, actual, _)` reports iff `actual mod eqMod ≠ expected` (`x mod 0 = x`)
  deriving DecidableEq, Repr

def HelperBeh.new (b : HelperBeh) (value : Int) : Int := b.start + (if b.addArg then value else 0)
/-- reported? -/
def HelperBeh.assertEmpty (b : HelperBeh) (v : Int) : Bool := v != b.emptyIs
/-- reported? -/
def HelperBeh.assertEqual (b : HelperBeh) (expected actual : Int) : Bool := actual % (b.eqMod : Int) != expected

/-- `helperNew(helper, c.Value)` of test.go -/
def helperNew (hb : Option HelperBeh) (value : Int) : Int :=
  match hb with
  | none => 0                          -- zero value / fresh pointer to one
  | some b => b.new value

/-- `helperAssertEmpty(helper, t, v, failInfo)`: reported? -/
def helperAssertEmpty (hb : Option HelperBeh) (v : Int) : Bool :=
  match hb with
  | none => v != 0                     -- assert.Empty(v)
  | some b => b.assertEmpty v

/-- `helperAssertEqual(helper, t, expected, actual, failInfo)`: reported? -/
def helperAssertEqual (hb : Option HelperBeh) (expected actual : Int) : Bool :=
  match hb with
  | none => actual != expected         -- assert.Equal(expected, actual)
  | some b => b.assertEqual expected actual

/-- value the scripted unmarshal call stores (`none`: the receiver is left as `New` made it) -/
def unmarshalStored : UBeh → Option Int
  | .ok s => s | .err _ s => s | .panic _ s => s

/-- the error the helper sees after the scripted unmarshal call -/
def unmarshalErr : UBeh → ErrV
  | .ok _ => .none | .err t _ => .text t | .panic t _ => .panicked t

/-- receiver after the scripted unmarshal call on a receiver holding `init`, and the error -/
def unmarshalResult (init : Int) (u : UBeh) : Int × ErrV :=
  ((unmarshalStored u).getD init, unmarshalErr u)

/-- one applicable case of `UnmarshalText/Binary/JSON` with the given `TypeHelper` (`none` = nil) -/
def unmarshalCase (hb : Option HelperBeh) (c : Case) : Bool :=
  if hookFails c.before then true
  else
    let (v, err) := unmarshalResult (helperNew hb c.value) c.ubeh
    if hookFails c.after then true
    else match c.pred with
      | .none => if !err.isNil then true else helperAssertEqual hb c.value v
      | p =>
        let (res, rep) := applyPred p err
        if res then rep || helperAssertEmpty hb v
        else rep

/-- does the case type provide the interface the helper needs? -/
def implements (h : Helper) (tk : TypeKind) : Bool :=
  match tk with
  | .tn => false
  | .tp => !h.isMarshal          -- value of a pointer-receiver type: only `&value` implements
  | _ => true

/-- the helper: `(FailNow called, reported?)` per case; `hb` is the `TypeHelper` argument, which only
the three Unmarshal helpers have -/
def run (h : Helper) (tk : TypeKind) (hb : Option HelperBeh) (cases : List Case) : Bool × List Bool :=
  match cases with
  | [] => (false, [])
  | _ =>
    if !implements h tk then (true, cases.map fun _ => false)
    else
      (false, cases.map fun c =>
        if h.isMarshal then (if isForMarshal c.constraint then marshalCase h.isBinary c else false)
        else (if isForUnmarshal c.constraint then unmarshalCase hb c else false))

/-! ## hooks that edit the case

`Before` and `After` receive a `*Case…`; whatever they write into it is what the helper reads afterwards:
`Value` after `Before` (the marshaled value / the argument of `New` and the expected value), `Error` and `Data`
after `After`. `Constraint` is read *before* `Before` runs, so writing it has no effect on the run. The script
gives every hook an optional edit; a hook that is absent (`Hook.nil`) writes nothing. -/
structure Edit where
  data : Option (Option Bytes)    -- `some d`: the hook sets `c.Data = d`
  value : Option Int              -- the hook sets (the number held by) `c.Value`
  pred : Option Pred              -- the hook sets `c.Error`
  constraint : Option Nat         -- the hook sets `c.Constraint` (too late to matter)
  deriving DecidableEq, Repr

def Edit.none : Edit := ⟨.none, .none, .none, .none⟩

/-- the hook's assignments, in the order the helper will read the fields; the constraint is not re-read -/
def Edit.apply (e : Edit) (c : Case) : Case :=
  { c with data := e.data.getD c.data, value := e.value.getD c.value, pred := e.pred.getD c.pred }

/-- a scripted case with the edits of its two hooks (`After` writes `Data` / `Error` / `Constraint` only) -/
structure XCase where
  base : Case
  before : Edit
  after : Edit
  deriving DecidableEq, Repr

/-- the case as it stands when the helper reads `Error` / `Data` / `Value`: `Before` has written, then `After` -/
def XCase.eff (x : XCase) : Case :=
  let c1 := if x.base.before == .nil then x.base else x.before.apply x.base
  if x.base.after == .nil then c1 else ({ x.after with value := .none } : Edit).apply c1

/-- the helpers over cases whose hooks edit them -/
def runX (h : Helper) (tk : TypeKind) (hb : Option HelperBeh) (xs : List XCase) : Bool × List Bool :=
  run h tk hb (xs.map XCase.eff)

end U.TestKit
