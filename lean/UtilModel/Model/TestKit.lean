import UtilModel.Model.Prelude
/-!
# Model of package `test` (the six marshal-test helpers) over scripted behaviours

A *case* is scripted: constraint, before/after hooks, error predicate, what the type's
Marshal*/Unmarshal* does, expected data/value. The helpers are transliterated over small models of
the `testify/assert` functions they call; the output is, per case, whether a failure was reported,
plus whether `FailNow` was called.
-/
namespace U.TestKit
open U

inductive Hook where
  | nil | ok | err | panic
  deriving DecidableEq, Repr

inductive Pred where
  | none | any | eq (t : Bytes) | pre (t : Bytes) | suf (t : Bytes)
  | re (compiles hit : Bool)     -- `hit` = the pattern matches the (known part of the) error text
  deriving DecidableEq, Repr

/-- marshaler behaviour: produced bytes (`none` = nil slice, `some []` = empty non-nil) and error -/
inductive MBeh where
  | data (d : Option Bytes)
  | err (text : Bytes) (d : Option Bytes)
  | panic (text : Bytes)
  deriving DecidableEq, Repr

/-- unmarshaler behaviour: optionally store a value, then succeed, fail or panic -/
inductive UBeh where
  | ok (set : Option Int)
  | err (text : Bytes) (set : Option Int)
  | panic (text : Bytes) (set : Option Int)
  deriving DecidableEq, Repr

structure Case where
  constraint : Nat
  before : Hook
  after : Hook
  pred : Pred
  mbeh : MBeh
  ubeh : UBeh
  data : Option Bytes    -- expected data (`none` = nil `[]byte`, only distinguishable in the binary helper)
  value : Int            -- expected value
  deriving DecidableEq, Repr

inductive TypeKind where
  | tv    -- value-receiver Marshal*, pointer-receiver Unmarshal*
  | tp    -- pointer receivers only, used as a value type
  | ptp   -- pointer to such a type
  | tn    -- no methods
  deriving DecidableEq, Repr

inductive Helper where
  | mt | ut | mb | ub | mj | uj
  deriving DecidableEq, Repr

def Helper.isMarshal : Helper → Bool
  | .mt | .mb | .mj => true
  | _ => false

def Helper.isBinary : Helper → Bool
  | .mb | .ub => true
  | _ => false

/-- the error seen by the helper: none, a known text, or `panic: <text>\n<stack>` (stack unknown, non-empty) -/
inductive ErrV where
  | none | text (t : Bytes) | panicked (t : Bytes)
  deriving DecidableEq, Repr

def ErrV.isNil : ErrV → Bool
  | .none => true | _ => false

def panicPrefix : Bytes := [112, 97, 110, 105, 99, 58, 32]   -- "panic: "

/-- the known part of the message -/
def ErrV.known : ErrV → Bytes
  | .none => [] | .text t => t | .panicked t => panicPrefix ++ t ++ [10]

def isPrefixOf : Bytes → Bytes → Bool
  | [], _ => true
  | _ :: _, [] => false
  | a :: as, b :: bs => a == b && isPrefixOf as bs

/-! ## the assertion functions: `(result, reported)` -/

/-- the `AssertErrorFunc`s of error.go -/
def applyPred (p : Pred) (e : ErrV) : Bool × Bool :=
  match p with
  | .none => (true, false)                                   -- not called
  | .any => (!e.isNil, e.isNil)                              -- assert.Error
  | .eq t =>                                                 -- assert.EqualError
    match e with
    | .none => (false, true)
    | .text m => (m == t, m != t)
    | .panicked _ => (false, true)
  | .pre t =>                                                -- assert.Error then assert.True(HasPrefix)
    if e.isNil then (false, true)
    else let ok := isPrefixOf t e.known; (ok, !ok)
  | .suf t =>
    match e with
    | .none => (false, true)
    | .text m => let ok := isPrefixOf t.reverse m.reverse; (ok, !ok)
    | .panicked _ => (false, true)                           -- generators never combine suffix with panic
  | .re compiles hit =>                                      -- assert.Error; MatchString; assert.NoError(compileErr)
    if e.isNil then (false, true)
    else if compiles && hit then (true, false)
    else (false, !compiles)

def hookFails : Hook → Bool
  | .err | .panic => true
  | _ => false

def isForMarshal (c : Nat) : Bool := c == 0 || c == 1
def isForUnmarshal (c : Nat) : Bool := c == 0 || c == 2

/-- `assert.Equal(c.Data, string(b))` (text, JSON) / `assert.Equal(c.Data, b)` on `[]byte` (binary) -/
def dataEqual (binary : Bool) (expected got : Option Bytes) : Bool :=
  if binary then
    match expected, got with
    | none, none => true
    | none, some _ => false
    | some _, none => false
    | some a, some b => a == b
  else expected.getD [] == got.getD []

/-- result of the scripted marshal call: bytes and error as the helper sees them -/
def marshalResult : MBeh → Option Bytes × ErrV
  | .data d => (d, .none)
  | .err t d => (d, .text t)
  | .panic t => (none, .panicked t)

/-- one applicable case of `MarshalText/Binary/JSON`: was a failure reported? -/
def marshalCase (binary : Bool) (c : Case) : Bool :=
  if hookFails c.before then true
  else
    let (b, err) := marshalResult c.mbeh
    if hookFails c.after then true
    else match c.pred with
      | .none => if !err.isNil then true else !dataEqual binary c.data b
      | p =>
        let (res, rep) := applyPred p err
        if res then rep || b.isSome      -- assert.Nil(b): an empty non-nil slice is not nil
        else rep

/-- value stored by the scripted unmarshal call and the error the helper sees -/
def unmarshalResult : UBeh → Int × ErrV
  | .ok s => (s.getD 0, .none)
  | .err t s => (s.getD 0, .text t)
  | .panic t s => (s.getD 0, .panicked t)

/-- one applicable case of `UnmarshalText/Binary/JSON` (nil `TypeHelper`) -/
def unmarshalCase (c : Case) : Bool :=
  if hookFails c.before then true
  else
    let (v, err) := unmarshalResult c.ubeh
    if hookFails c.after then true
    else match c.pred with
      | .none => if !err.isNil then true else v != c.value        -- assert.Equal(c.Value, v)
      | p =>
        let (res, rep) := applyPred p err
        if res then rep || v != 0                                  -- assert.Empty(v)
        else rep

/-- does the case type provide the interface the helper needs? -/
def implements (h : Helper) (tk : TypeKind) : Bool :=
  match tk with
  | .tn => false
  | .tp => !h.isMarshal          -- value of a pointer-receiver type: only `&value` implements
  | _ => true

/-- the helper: `(FailNow called, reported?)` per case -/
def run (h : Helper) (tk : TypeKind) (cases : List Case) : Bool × List Bool :=
  match cases with
  | [] => (false, [])
  | _ =>
    if !implements h tk then (true, cases.map fun _ => false)
    else
      (false, cases.map fun c =>
        if h.isMarshal then (if isForMarshal c.constraint then marshalCase h.isBinary c else false)
        else (if isForUnmarshal c.constraint then unmarshalCase c else false))

end U.TestKit
