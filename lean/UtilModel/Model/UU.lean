import UtilModel.Model.Prelude
import UtilModel.Gen.Facts
/-!
# Model of package `uu`

The bit expressions (`RandomID`, the five formatter fields, the parser's digit placement) are the
generated `Gen.uu_*` definitions; the control flow and the accessors `Version`/`Variant` are transliterated by
hand (the accessors are tied to their translations `Gen.uu_Version`/`Gen.uu_Variant` in `Lemmas/CodeTiesUU.lean`).
-/
namespace U.UU
open U

structure ID where
  hi : BitVec 64
  lo : BitVec 64
  deriving DecidableEq, Repr

def ID.zero : ID := ⟨0#64, 0#64⟩

/-- `ID.Version()`: bits 12–15 of `Higher` (tied to the source by `C05.accessors_code_tie`) -/
def ID.version (i : ID) : Nat := ((i.hi >>> 12) &&& 15#64).toNat

/-- `ID.Variant()`: the number of leading one bits of `Lower`, at most 3 -/
def ID.variant (i : ID) : Nat :=
  if i.lo &&& 9223372036854775808#64 = 0#64 then 0
  else if i.lo &&& 4611686018427387904#64 = 0#64 then 1
  else if i.lo &&& 2305843009213693952#64 = 0#64 then 2 else 3

/-- `DefaultFormatter(buf, id, f)` with the five `%0Nx` fields (widths 8,4,4,4,12) -/
def format (buf : Bytes) (i : ID) (urn : Bool) : Bytes :=
  (if urn then buf ++ Gen.uu_URNPrefix else buf)
    ++ padHex 8 (Gen.uu_field0 i.hi i.lo).toNat ++ [45]
    ++ padHex 4 (Gen.uu_field1 i.hi i.lo).toNat ++ [45]
    ++ padHex 4 (Gen.uu_field2 i.hi i.lo).toNat ++ [45]
    ++ padHex 4 (Gen.uu_field3 i.hi i.lo).toNat ++ [45]
    ++ padHex 12 (Gen.uu_field4 i.hi i.lo).toNat

/-- `f & FormatURN != 0`, `r & RuleDisableURN != 0`, `r & RuleDisableUpperCaseDigits != 0` -/
def isURN (f : Nat) : Bool := f &&& Gen.uu_FormatURN != 0
def ruleDisableURN (r : Nat) : Bool := r &&& Gen.uu_RuleDisableURN != 0
def ruleDisableUpper (r : Nat) : Bool := r &&& Gen.uu_RuleDisableUpperCaseDigits != 0

/-- `formatByVerb` -/
def flagsByVerb (verb : Nat) : Nat :=
  match Gen.uu_verbs.find? (fun e => e.1 == verb) with
  | some e => e.2.getD 0
  | none => Gen.uu_verbDefault.getD 0

/-- `MarshalText`, `String` (both `Formatter(nil, id, 0)`) and `Format(f, verb)` -/
def marshalText (i : ID) : Bytes := format [] i (isURN 0)
def toString (i : ID) : Bytes := format [] i (isURN 0)
def formatVerb (i : ID) (verb : Nat) : Bytes := format [] i (isURN (flagsByVerb verb))

/-- `ID.URN()` -/
def ID.urn (i : ID) : Bytes := format Gen.uu_URNPrefix i false

/-- `RandomID()` given the two 63-bit draws -/
def randomID (a b : BitVec 64) : ID := ⟨Gen.uu_rndHigher a b, Gen.uu_rndLower a b⟩

/-! ## parser -/

/-- `parseDigit` -/
def parseDigit (c : Nat) (allowUpper : Bool) : Option Nat :=
  if 48 ≤ c ∧ c ≤ 57 then some (c - 48)
  else if 97 ≤ c ∧ c ≤ 102 then some (c - 87)
  else if allowUpper ∧ 65 ≤ c ∧ c ≤ 70 then some (c - 55)
  else none

/-- `hasURNPrefix`: `urn` in either case followed by exactly `:uuid:` -/
def hasURNPrefix (s : Bytes) : Outcome Bool :=
  match s[0]?, s[1]?, s[2]? with
  | some c0, some c1, some c2 =>
    if c0 ≠ 117 ∧ c0 ≠ 85 then .ok false
    else if c1 ≠ 114 ∧ c1 ≠ 82 then .ok false
    else if c2 ≠ 110 ∧ c2 ≠ 78 then .ok false
    else
      let rec go (k : Nat) (want : Bytes) : Outcome Bool :=
        match want with
        | [] => .ok true
        | w :: ws =>
          match s[k + 3]? with
          | none => .panic
          | some c => if c ≠ w then .ok false else go (k + 1) ws
      go 0 [58, 117, 117, 105, 100, 58]
  | _, _, _ => .panic

/-- accumulate one hex digit: `n[x>>6] |= v << (x & 0x3f)` with `x = digitPos i j` -/
def place (n : BitVec 64 × BitVec 64) (i j v : Nat) : BitVec 64 × BitVec 64 :=
  let x := Gen.uu_digitPos i j
  let w := BitVec.ofNat 64 v <<< Gen.uu_digitShift x
  if Gen.uu_digitWord x = 0 then (n.1 ||| w, n.2) else (n.1, n.2 ||| w)   -- (n[0], n[1])

/-- the 16×2 digit loop; state is (n[0], n[1]) = (Lower, Higher) -/
def digits (s : Bytes) (offset : Nat) (allowUpper : Bool) :
    List Nat → Nat → BitVec 64 × BitVec 64 → Outcome (BitVec 64 × BitVec 64)
  | [], _, n => .ok n
  | start :: rest, i, n =>
    match s[offset + start]?, s[offset + start + 1]? with
    | some c0, some c1 =>
      match parseDigit c0 allowUpper with
      | none => .err (.invalidDigit c0)
      | some v0 =>
        match parseDigit c1 allowUpper with
        | none => .err (.invalidDigit c1)
        | some v1 => digits s offset allowUpper rest (i + 1) (place (place n i 0 v0) i 1 v1)
    | _, _ => .panic

/-- `DefaultParser(input, r)` -/
def parse (maxLen : Nat) (disableURN disableUpper : Bool) (s : Bytes) : Outcome ID :=
  let l := s.length
  if maxLen ≠ 0 ∧ l > maxLen then .err .tooLong
  else
    let offset? : Outcome Nat :=
      if l = Gen.uu_IDLength then .ok 0
      else if l = Gen.uu_IDLength + Gen.uu_URNPrefix.length then
        if disableURN then .err .urnDisabled
        else match hasURNPrefix s with
          | .ok true => .ok Gen.uu_URNPrefix.length
          | .ok false => .err .invalid
          | .err e => .err e
          | .panic => .panic
      else .err .invalid
    match offset? with
    | .err e => .err e
    | .panic => .panic
    | .ok offset =>
      match s[offset + 8]?, s[offset + 13]?, s[offset + 18]?, s[offset + 23]? with
      | some h1, some h2, some h3, some h4 =>
        if h1 ≠ 45 ∨ h2 ≠ 45 ∨ h3 ≠ 45 ∨ h4 ≠ 45 then .err .invalid
        else
          match digits s offset (!disableUpper) Gen.uu_starts 0 (0#64, 0#64) with
          | .ok n => .ok ⟨n.2, n.1⟩
          | .err e => .err e
          | .panic => .panic
      | _, _, _, _ => .panic

end U.UU
