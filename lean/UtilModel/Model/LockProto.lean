/-!
# Small-step model of concurrent `RandomID` calls (C19, protocol part)

Every thread repeats `Lock; a ← draw; b ← draw; Unlock` (the body of `twoRandomUint63`; that every use
of the shared generator sits between `randomMutex.Lock()` and the deferred `Unlock()` is a structure
fact extracted from the source, `Gen.uu_randomUnderMutex`). A *schedule* is any list of thread ids:
at each step the named thread performs its next action if that action is enabled (acquiring is
enabled only while the lock is free) and otherwise stays blocked. `draw` hands out consecutive
positions of the generator's stream.
-/
namespace U.LockProto

inductive PC where
  | idle | locked | drew1 (a : Nat) | drew2 (a b : Nat)
  deriving DecidableEq, Repr

structure St where
  holder : Option Nat
  pos : Nat                          -- next position of the shared stream
  pcs : Nat → PC
  done : List (Nat × Nat × Nat)      -- completed calls in completion order: (thread, position of a, position of b)

def init : St := ⟨none, 0, fun _ => .idle, []⟩

def setPC (f : Nat → PC) (t : Nat) (p : PC) : Nat → PC := fun u => if u = t then p else f u

/-- one scheduler step: thread `t` tries to move -/
def step (s : St) (t : Nat) : St :=
  match s.pcs t with
  | .idle => if s.holder = none then { s with holder := some t, pcs := setPC s.pcs t .locked } else s
  | .locked => { s with pos := s.pos + 1, pcs := setPC s.pcs t (.drew1 s.pos) }
  | .drew1 a => { s with pos := s.pos + 1, pcs := setPC s.pcs t (.drew2 a s.pos) }
  | .drew2 a b => { s with holder := none, pcs := setPC s.pcs t .idle, done := s.done ++ [(t, a, b)] }

def exec (sched : List Nat) : St := sched.foldl step init

/-- the same threads **without** the mutex (for the negative example) -/
def stepNoLock (s : St) (t : Nat) : St :=
  match s.pcs t with
  | .idle => { s with pcs := setPC s.pcs t .locked }
  | .locked => { s with pos := s.pos + 1, pcs := setPC s.pcs t (.drew1 s.pos) }
  | .drew1 a => { s with pos := s.pos + 1, pcs := setPC s.pcs t (.drew2 a s.pos) }
  | .drew2 a b => { s with pcs := setPC s.pcs t .idle, done := s.done ++ [(t, a, b)] }

end U.LockProto
