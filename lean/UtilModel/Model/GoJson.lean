import UtilModel.Model.Prelude
/-!
# The part of `encoding/json`'s streaming decoder that package `size` uses

Transliterated from `encoding/json/stream.go` (`Decoder.Token`, `More`, `peek`, `readValue`) and
`scanner.go`/`decode.go` (scalar grammar, `unquote`) of Go 1.23. Only what `Token`/`More` can
observe is modelled: containers are tokenised delimiter by delimiter, scalars are scanned to the
first byte that cannot continue them (no look-ahead), errors are classified as syntax error,
`io.EOF` or `io.ErrUnexpectedEOF`. Validated against the real decoder by correspondence
(`json.tokens` lines).
-/
namespace U.GoJson
open U

inductive TState where
  | topValue | arrayStart | arrayValue | arrayComma
  | objectStart | objectKey | objectColon | objectValue | objectComma
  deriving DecidableEq, Repr

inductive Tok where
  | delim (c : Nat)        -- one of [ ] { }
  | str (s : Bytes)        -- decoded string (UTF-8 bytes)
  | num (s : Bytes)        -- literal text (UseNumber)
  | bool (b : Bool)
  | null
  deriving DecidableEq, Repr

inductive JErr where
  | syntax | eof | unexpectedEOF
  deriving DecidableEq, Repr

structure Dec where
  rest : Bytes
  st : TState
  stack : List TState
  deriving DecidableEq, Repr

def Dec.init (s : Bytes) : Dec := ⟨s, .topValue, []⟩

def isSpace (c : Nat) : Bool := c == 32 || c == 9 || c == 13 || c == 10

def skipSpace : Bytes → Bytes
  | c :: t => if isSpace c then skipSpace t else c :: t
  | [] => []

theorem skipSpace_length_le (s : Bytes) : (skipSpace s).length ≤ s.length := by
  induction s with
  | nil => simp [skipSpace]
  | cons c t ih => unfold skipSpace; split <;> simp <;> omega

def valueAllowed : TState → Bool
  | .topValue | .arrayStart | .arrayValue | .objectValue => true
  | _ => false

/-- `tokenValueEnd` -/
def valueEnd : TState → TState
  | .arrayStart | .arrayValue => .arrayComma
  | .objectValue => .objectComma
  | s => s

/-! ## scalar scanner: returns the literal and the remaining input -/

def isHex (c : Nat) : Bool := isDigit c || (97 ≤ c && c ≤ 102) || (65 ≤ c && c ≤ 70)

/-- body of a string literal after the opening quote: returns (raw body, rest after closing quote) -/
def scanString : Bytes → Bytes → Except JErr (Bytes × Bytes)
  | [], _ => .error .unexpectedEOF
  | 34 :: t, acc => .ok (acc.reverse, t)
  | 92 :: t, acc =>
    match t with
    | [] => .error .unexpectedEOF
    | 117 :: t' =>   -- \u + 4 hex
      match t' with
      | a :: b :: c :: d :: t'' =>
        if isHex a && isHex b && isHex c && isHex d then scanString t'' (d :: c :: b :: a :: 117 :: 92 :: acc)
        else .error .syntax
      | _ => if t'.all isHex then .error .unexpectedEOF else .error .syntax
    | e :: t' =>
      if e == 98 || e == 102 || e == 110 || e == 114 || e == 116 || e == 92 || e == 47 || e == 34
      then scanString t' (e :: 92 :: acc) else .error .syntax
  | c :: t, acc => if c < 32 then .error .syntax else scanString t (c :: acc)

def spanDigits : Bytes → Bytes × Bytes
  | c :: t => if isDigit c then let (a, b) := spanDigits t; (c :: a, b) else ([], c :: t)
  | [] => ([], [])

/-- number literal at the head of the input: (literal, rest) -/
def scanNumber (s : Bytes) : Except JErr (Bytes × Bytes) :=
  -- optional minus
  let (neg, s1) := match s with | 45 :: t => ([45], t) | _ => ([], s)
  -- integer part
  let intPart : Except JErr (Bytes × Bytes) :=
    match s1 with
    | [] => .error .unexpectedEOF
    | 48 :: t => .ok ([48], t)
    | c :: t => if isDigit c then let (ds, r) := spanDigits t; .ok (c :: ds, r) else .error .syntax
  match intPart with
  | .error e => .error e
  | .ok (ip, s2) =>
    -- fraction
    let frac : Except JErr (Bytes × Bytes) :=
      match s2 with
      | 46 :: t =>
        match t with
        | [] => .error .unexpectedEOF
        | c :: _ => if isDigit c then let (ds, r) := spanDigits t; .ok (46 :: ds, r) else .error .syntax
      | _ => .ok ([], s2)
    match frac with
    | .error e => .error e
    | .ok (fp, s3) =>
      -- exponent
      let ex : Except JErr (Bytes × Bytes) :=
        match s3 with
        | e :: t =>
          if e == 101 || e == 69 then
            let (sg, t1) := match t with
              | 43 :: u => ([43], u) | 45 :: u => ([45], u) | _ => ([], t)
            match t1 with
            | [] => .error .unexpectedEOF
            | c :: _ => if isDigit c then let (ds, r) := spanDigits t1; .ok (e :: sg ++ ds, r) else .error .syntax
          else .ok ([], s3)
        | [] => .ok ([], s3)
      match ex with
      | .error e => .error e
      | .ok (ep, s4) => .ok (neg ++ ip ++ fp ++ ep, s4)

/-- fixed literal `true`/`false`/`null` (first byte already known to match) -/
def scanLit (want : Bytes) (s : Bytes) : Except JErr Bytes :=
  match want, s with
  | [], r => .ok r
  | _ :: _, [] => .error .unexpectedEOF
  | w :: ws, c :: t => if c = w then scanLit ws t else .error .syntax

/-! ## `unquote`: escapes, surrogates, invalid UTF-8 → U+FFFD -/

def hexVal (c : Nat) : Nat :=
  if isDigit c then c - 48 else if 97 ≤ c && c ≤ 102 then c - 87 else c - 55

def utf8Encode (r : Nat) : Bytes :=
  if r < 0x80 then [r]
  else if r < 0x800 then [0xC0 + r / 64, 0x80 + r % 64]
  else if r < 0x10000 then [0xE0 + r / 4096, 0x80 + r / 64 % 64, 0x80 + r % 64]
  else [0xF0 + r / 262144, 0x80 + r / 4096 % 64, 0x80 + r / 64 % 64, 0x80 + r % 64]

def replacement : Bytes := [0xEF, 0xBF, 0xBD]

def isCont (c : Nat) : Bool := 0x80 ≤ c && c ≤ 0xBF

/-- width of the valid UTF-8 sequence at the head of `s`, 0 if invalid (Go's `utf8.DecodeRune` rules) -/
def utf8Width (s : Bytes) : Nat :=
  match s with
  | [] => 0
  | c0 :: t =>
    if c0 < 0x80 then 1
    else if 0xC2 ≤ c0 && c0 ≤ 0xDF then
      match t with | c1 :: _ => if isCont c1 then 2 else 0 | _ => 0
    else if 0xE0 ≤ c0 && c0 ≤ 0xEF then
      match t with
      | c1 :: c2 :: _ =>
        let lo := if c0 == 0xE0 then 0xA0 else 0x80
        let hi := if c0 == 0xED then 0x9F else 0xBF
        if lo ≤ c1 && c1 ≤ hi && isCont c2 then 3 else 0
      | _ => 0
    else if 0xF0 ≤ c0 && c0 ≤ 0xF4 then
      match t with
      | c1 :: c2 :: c3 :: _ =>
        let lo := if c0 == 0xF0 then 0x90 else 0x80
        let hi := if c0 == 0xF4 then 0x8F else 0xBF
        if lo ≤ c1 && c1 ≤ hi && isCont c2 && isCont c3 then 4 else 0
      | _ => 0
    else 0

def hex4 (a b c d : Nat) : Nat := hexVal a * 4096 + hexVal b * 256 + hexVal c * 16 + hexVal d

/-- decode the raw body of a (scanner-validated) string literal; fuel = length -/
def unquoteF : Nat → Bytes → Bytes
  | 0, _ => []
  | _ + 1, [] => []
  | f + 1, 92 :: 117 :: a :: b :: c :: d :: t =>
    let r := hex4 a b c d
    if 0xD800 ≤ r && r < 0xDC00 then
      -- high surrogate: valid only when followed by \u + low surrogate
      match t with
      | 92 :: 117 :: a' :: b' :: c' :: d' :: t' =>
        let r2 := hex4 a' b' c' d'
        if 0xDC00 ≤ r2 && r2 < 0xE000 && isHex a' && isHex b' && isHex c' && isHex d' then
          utf8Encode (0x10000 + (r - 0xD800) * 1024 + (r2 - 0xDC00)) ++ unquoteF f t'
        else replacement ++ unquoteF f t
      | _ => replacement ++ unquoteF f t
    else if 0xDC00 ≤ r && r < 0xE000 then replacement ++ unquoteF f t
    else utf8Encode r ++ unquoteF f t
  | f + 1, 92 :: e :: t =>
    let c := if e == 98 then 8 else if e == 102 then 12 else if e == 110 then 10
             else if e == 114 then 13 else if e == 116 then 9 else e
    c :: unquoteF f t
  | f + 1, c :: t =>
    if c < 0x80 then c :: unquoteF f t
    else
      let w := utf8Width (c :: t)
      if w = 0 then replacement ++ unquoteF f t
      else (c :: t).take w ++ unquoteF f ((c :: t).drop w)

def unquote (raw : Bytes) : Bytes := unquoteF (raw.length + 1) raw

/-- `dec.Decode(&x)` for a scalar at the head of the input (first byte is not a delimiter) -/
def scanScalar (s : Bytes) : Except JErr (Tok × Bytes) :=
  match s with
  | [] => .error .eof
  | 34 :: t =>
    match scanString t [] with
    | .ok (raw, r) => .ok (.str (unquote raw), r)
    | .error e => .error e
  | 116 :: t => match scanLit [114, 117, 101] t with | .ok r => .ok (.bool true, r) | .error e => .error e
  | 102 :: t => match scanLit [97, 108, 115, 101] t with | .ok r => .ok (.bool false, r) | .error e => .error e
  | 110 :: t => match scanLit [117, 108, 108] t with | .ok r => .ok (.null, r) | .error e => .error e
  | c :: _ =>
    if c == 45 || isDigit c then
      match scanNumber s with
      | .ok (lit, r) => .ok (.num lit, r)
      | .error e => .error e
    else .error .syntax

/-! ## `Token` and `More` -/

/-- `Decoder.More`: next non-space byte exists and is neither `]` nor `}` -/
def Dec.more (d : Dec) : Bool :=
  match skipSpace d.rest with
  | [] => false
  | c :: _ => c != 93 && c != 125

/-- `Decoder.Token` (fuel bounds the `:`/`,` continue loop; `rest.length + 1` always suffices) -/
def tokenF : Nat → Dec → Except JErr (Tok × Dec)
  | 0, _ => .error .syntax
  | f + 1, d =>
    match skipSpace d.rest with
    | [] => .error .eof
    | c :: t =>
      if c == 91 then        -- [
        if !valueAllowed d.st then .error .syntax
        else .ok (.delim 91, ⟨t, .arrayStart, d.st :: d.stack⟩)
      else if c == 93 then   -- ]
        if d.st != .arrayStart && d.st != .arrayComma then .error .syntax
        else match d.stack with
          | [] => .error .syntax   -- unreachable: the stack is non-empty inside an array
          | p :: ps => .ok (.delim 93, ⟨t, valueEnd p, ps⟩)
      else if c == 123 then  -- {
        if !valueAllowed d.st then .error .syntax
        else .ok (.delim 123, ⟨t, .objectStart, d.st :: d.stack⟩)
      else if c == 125 then  -- }
        if d.st != .objectStart && d.st != .objectComma then .error .syntax
        else match d.stack with
          | [] => .error .syntax
          | p :: ps => .ok (.delim 125, ⟨t, valueEnd p, ps⟩)
      else if c == 58 then   -- :
        if d.st != .objectColon then .error .syntax
        else tokenF f ⟨t, .objectValue, d.stack⟩
      else if c == 44 then   -- ,
        if d.st == .arrayComma then tokenF f ⟨t, .arrayValue, d.stack⟩
        else if d.st == .objectComma then tokenF f ⟨t, .objectKey, d.stack⟩
        else .error .syntax
      else if c == 34 && (d.st == .objectStart || d.st == .objectKey) then
        match scanScalar (c :: t) with
        | .ok (tok, r) => .ok (tok, ⟨r, .objectColon, d.stack⟩)
        | .error e => .error e
      else
        if !valueAllowed d.st then .error .syntax
        else match scanScalar (c :: t) with
          | .ok (tok, r) => .ok (tok, ⟨r, valueEnd d.st, d.stack⟩)
          | .error e => .error e

def Dec.token (d : Dec) : Except JErr (Tok × Dec) := tokenF (d.rest.length + 1) d

end U.GoJson
