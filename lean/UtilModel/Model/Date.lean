import UtilModel.Model.GoTime
import UtilModel.Gen.Facts
/-!
# Model of package `date` (after fixes F3, F4)
-/
namespace U.Date
open U U.GoTime

/-- the stored representation: zero-based year (int32), month and day (uint8) -/
structure Date where
  year : Int
  month : Nat
  day : Nat
  deriving DecidableEq, Repr

def zero : Date := ⟨0, 0, 0⟩

def wrap32 (x : Int) : Int := (x + 2147483648) % 4294967296 - 2147483648

/-- `Date.Date()`: `int(d.year + 1), Month(d.month + 1), int(d.day + 1)` with Go's fixed-width wrap -/
def Date.date (d : Date) : Int × Nat × Nat :=
  (wrap32 (d.year + 1), (d.month + 1) % 256, (d.day + 1) % 256)

/-- `(*Date).FromTime` applied to the instant with calendar fields `(y, m, d)` -/
def ofCivil (c : Int × Nat × Int) : Date :=
  ⟨wrap32 (c.1 - 1), (c.2.1 + 255) % 256, ((c.2.2 - 1) % 256).toNat⟩

/-- `New(year, month, day)` = `FromTime(time.Date(year, month, day, 0,0,0,0, UTC))` -/
def new (y m d : Int) : Date := ofCivil (civil (ordinalNorm y m d))

/-- day number of `d.Time()` -/
def Date.ordinal (d : Date) : Int :=
  let (y, m, dd) := d.date
  ordinalNorm y m dd

/-- `FromTime(t)`: `sec` seconds since 0001-01-01T00:00:00Z, `nsec`, zone offset in seconds -/
def fromTime (sec nsec off : Int) : Date :=
  if sec = 0 ∧ nsec = 0 then zero
  else ofCivil (civil ((sec + off) / 86400 + 1))

def Date.isZero (d : Date) : Bool := d.year == 0 && d.month == 0 && d.day == 0
def Date.equal (d e : Date) : Bool := d.year == e.year && d.month == e.month && d.day == e.day

def Date.after (d e : Date) : Bool :=
  if d.year > e.year then true
  else if d.year < e.year then false
  else if d.month > e.month then true
  else if d.month < e.month then false
  else if d.day > e.day then true
  else false

def Date.before (d e : Date) : Bool :=
  if d.year < e.year then true
  else if d.year > e.year then false
  else if d.month < e.month then true
  else if d.month > e.month then false
  else if d.day < e.day then true
  else false

def Date.add (d : Date) (years months days : Int) : Date :=
  let (y, m, dd) := d.date
  new (y + years) (m + months) (dd + days)

def Date.addDuration (d : Date) (dur : Int) : Date :=
  ofCivil (civil (d.ordinal + dur / nsPerDay))

def Date.sub (d e : Date) : Int := subDays d.ordinal e.ordinal
def Date.daysBetween (d e : Date) : Int := hoursDiv24 (d.sub e)

/-! ## formatter -/

/-- `DefaultFormatter(buf, d, f)`; `basic` is `f & FormatBasic != 0` -/
def format (buf : Bytes) (d : Date) (basic : Bool) : Bytes :=
  let (y, m, dd) := d.date
  if basic then buf ++ padDecInt 4 y ++ padDec 2 m ++ padDec 2 dd
  else buf ++ padDecInt 4 y ++ [45] ++ padDec 2 m ++ [45] ++ padDec 2 dd

/-- `f & FormatBasic != 0` -/
def isBasic (f : Nat) : Bool := f &&& Gen.date_FormatBasic != 0

/-- `formatByVerb`: the switch table extracted from the source -/
def flagsByVerb (verb : Nat) : Nat :=
  match Gen.date_verbs.find? (fun e => e.1 == verb) with
  | some e => e.2.getD 0
  | none => Gen.date_verbDefault.getD 0

/-- `MarshalText`, `String` (both `Formatter(nil, d, 0)`) and `Format(f, verb)` -/
def marshalText (d : Date) : Bytes := format [] d (isBasic 0)
def toString (d : Date) : Bytes := format [] d (isBasic 0)
def formatVerb (d : Date) (verb : Nat) : Bytes := format [] d (isBasic (flagsByVerb verb))

/-! ## parser -/

/-- F3's `validDate` -/
def validDate (y : Int) (m d : Nat) : Bool :=
  decide (1 ≤ m) && decide (m ≤ 12) && decide (1 ≤ d) && decide (d ≤ daysIn y m)

/-- an optional `-` -/
def stripDash : Bytes → Bytes
  | 45 :: t => t
  | t => t

/-- `(1[0-2]|0[0-9])` on the two month bytes -/
def monthPat (m1 m2 : Nat) : Bool :=
  (m1 == 49 && (m2 == 48 || m2 == 49 || m2 == 50)) || (m1 == 48 && isDigit m2)

/-- `(3[01]|[0-2][0-9])` on the two day bytes -/
def dayPat (d1 d2 : Nat) : Bool :=
  (d1 == 51 && (d2 == 48 || d2 == 49)) || ((d1 == 48 || d1 == 49 || d1 == 50) && isDigit d2)

/-- language of `^([0-9]{4,9})-?(1[0-2]|0[0-9])-?(3[01]|[0-2][0-9])$`, decomposed from the right
    (the decomposition is unique: each `-?` is followed by a digit); returns the three groups -/
def shape (s : Bytes) : Option (Bytes × Bytes × Bytes) :=
  match s.reverse with
  | d2 :: d1 :: r1 =>
    match stripDash r1 with
    | m2 :: m1 :: r3 =>
      let ys := (stripDash r3).reverse
      if allDigits ys && decide (4 ≤ ys.length) && decide (ys.length ≤ 9) && monthPat m1 m2 && dayPat d1 d2
      then some (ys, [m1, m2], [d1, d2]) else none
    | _ => none
  | _ => none

/-- `DefaultParser(input, r)`; `maxLen` is `MaxInputLength`, `disableBasic` is `r & RuleDisableBasic != 0` -/
def parse (maxLen : Nat) (disableBasic : Bool) (s : Bytes) : Outcome Date :=
  let l := s.length
  if l = 0 then .err .invalid
  else if maxLen ≠ 0 ∧ l > maxLen then .err .tooLong
  else match shape s with
    | none => .err .invalid
    | some (ys, ms, ds) =>
      match s[l-3]?, s[l-5]?, s[l-6]? with
      | some b3, some b5, some b6 =>
        let sep2 := b3 == 45
        let finish : Outcome Date :=
          if validDate (val ys) (val ms) (val ds) then .ok (new (val ys) (val ms) (val ds)) else .err .invalid
        if sep2 || b5 == 45 then
          if !sep2 || b6 != 45 then .err .invalid else finish
        else if disableBasic then .err .basicDisabled
        else finish
      | _, _, _ => .panic

/-- `r & RuleDisableBasic != 0` -/
def ruleDisableBasic (r : Nat) : Bool := r &&& Gen.date_RuleDisableBasic != 0

/-- `UnmarshalText(data)` = `Parser(data, 0)`; returns the new receiver value -/
def unmarshalText (maxLen : Nat) (s : Bytes) : Outcome Date := parse maxLen (ruleDisableBasic 0) s

/-! ## binary -/

def byteOf (x : Int) : Nat := (x % 256).toNat

/-- `MarshalBinary` -/
def marshalBinary (d : Date) : Bytes :=
  let y := wrap32 (d.year + 1)
  [Gen.date_version, byteOf (y / 16777216), byteOf (y / 65536), byteOf (y / 256), byteOf y,
   (d.month + 1) % 256, (d.day + 1) % 256]

/-- `UnmarshalBinary` (F4): returns the new receiver value -/
def unmarshalBinary (bs : Bytes) : Outcome Date :=
  match bs with
  | [] => .err .invalidLength
  | v :: _ =>
    if v ≠ Gen.date_version then .err .unsupportedVersion
    else match bs with
      | [_, b1, b2, b3, b4, m, dd] =>
        let y := wrap32 (b1 * 16777216 + b2 * 65536 + b3 * 256 + b4 : Nat)
        if validDate y m dd then .ok ⟨wrap32 (y - 1), (m + 255) % 256, (dd + 255) % 256⟩
        else .err .invalidDate
      | _ => .err .invalidLength

/-! ## filter -/

inductive Filter where
  | no | to (t : Date) | from (f : Date) | date (d : Date) | fromTo (f t : Date)
  deriving DecidableEq, Repr

def filterFromTo (fr to : Option Date) : Outcome Filter :=
  match fr, to with
  | none, none => .ok .no
  | none, some t => .ok (.to t)
  | some f, none => .ok (.from f)
  | some f, some t =>
    if f.equal t then .ok (.date f)
    else if f.after t then .err .invalidFromOrTo
    else .ok (.fromTo f t)

def Filter.contains : Filter → Date → Bool
  | .no, _ => true
  | .date d, x => d.equal x
  | .from f, x => f.equal x || f.before x
  | .to t, x => t.equal x || t.after x
  | .fromTo f t, x => f.equal x || t.equal x || (f.before x && t.after x)

end U.Date
