import UtilModel.Model.Prelude
import UtilModel.Gen.Facts
/-!
# Model of package `sem` (after fix F5)
-/
namespace U.Sem
open U

structure Ver where
  major : Nat
  minor : Nat
  patch : Nat
  pre : Bytes
  build : Bytes
  deriving DecidableEq, Repr

def Ver.zero : Ver := ⟨0, 0, 0, [], []⟩

/-! ## identifier classes of the grammar -/

/-- `[0-9A-Za-z-]` -/
def isIdentChar (c : Nat) : Bool := isDigit c || isLetter c || c == 45

/-- split on `.` (always at least one piece) -/
def splitDot : Bytes → List Bytes
  | [] => [[]]
  | c :: t =>
    if c = 46 then [] :: splitDot t
    else match splitDot t with
      | p :: ps => (c :: p) :: ps
      | [] => [[c]]   -- unreachable: splitDot never returns []

/-- `0|[1-9][0-9]*` -/
def isNumIdent (s : Bytes) : Bool :=
  match s with
  | [] => false
  | [48] => true
  | c :: t => c != 48 && isDigit c && allDigits t

/-- pre-release identifier: alphanumeric identifier with a non-digit, or numeric without leading zero -/
def isPreIdent (s : Bytes) : Bool :=
  !s.isEmpty && s.all isIdentChar && (!allDigits s || isNumIdent s)

/-- build identifier: non-empty run of identifier characters -/
def isBuildIdent (s : Bytes) : Bool := !s.isEmpty && s.all isIdentChar

/-- `^preReleasePattern$` -/
def validPre (s : Bytes) : Bool := (splitDot s).all isPreIdent
/-- `^buildPattern$` -/
def validBuild (s : Bytes) : Bool := (splitDot s).all isBuildIdent

/-- split at the first occurrence of `sep`: (before, after?) -/
def cut (sep : Nat) : Bytes → Bytes × Option Bytes
  | [] => ([], none)
  | c :: t =>
    if c = sep then ([], some t)
    else let (a, b) := cut sep t; (c :: a, b)

/-- language and captures of `semverPattern`. Unique decomposition: `+` occurs only before the
    build part, the first `-` of what precedes it only before the pre-release part. -/
def shape (s : Bytes) : Option (Bytes × Bytes × Bytes × Bytes × Bytes) :=
  let (head, build?) := cut 43 s
  let (core, pre?) := cut 45 head
  match splitDot core with
  | [ma, mi, pa] =>
    if isNumIdent ma && isNumIdent mi && isNumIdent pa
       && (match pre? with | none => true | some p => validPre p)
       && (match build? with | none => true | some b => validBuild b)
    then some (ma, mi, pa, pre?.getD [], build?.getD [])
    else none
  | _ => none

/-- `unmarshalText(funcName, input, f)`; `allowVersion`/`allowTag` are the two form bits -/
def unmarshalText (maxLen : Nat) (allowVersion allowTag : Bool) (s : Bytes) : Outcome Ver :=
  let l := s.length
  if l = 0 then .err .invalid
  else if maxLen ≠ 0 ∧ l > maxLen then .err .tooLong
  else match s[0]? with
    | none => .panic
    | some c0 =>
      let body : Outcome Bytes :=
        if c0 == Gen.sem_tagPrefix then
          (if !allowTag then .err .tagNotAllowed else .ok (s.drop 1))
        else
          (if !allowVersion then .err .expectedTag else .ok s)
      match body with
      | .err e => .err e
      | .panic => .panic
      | .ok t =>
        match shape t with
        | none => .err .invalid
        | some (ma, mi, pa, pre, build) =>
          if val ma ≥ two64 then .err .invalidMajor
          else if val mi ≥ two64 then .err .invalidMinor
          else if val pa ≥ two64 then .err .invalidPatch
          else .ok ⟨val ma, val mi, val pa, pre, build⟩

inductive Entry where
  | parse | parseVersion | parseTag | default | defaultNoTag
  deriving DecidableEq, Repr

/-- the public entry points as instances of `unmarshalText` -/
def parseEntry (maxLen : Nat) (e : Entry) (s : Bytes) : Outcome Ver :=
  match e with
  | .parse => unmarshalText maxLen true true s
  | .parseVersion => unmarshalText maxLen true false s
  | .parseTag => unmarshalText maxLen false true s
  | .default => unmarshalText maxLen true true s
  | .defaultNoTag => unmarshalText maxLen true false s

/-- `DefaultFormatter(buf, v, f)`; `tag` is `f & FormatTag != 0` -/
def format (buf : Bytes) (v : Ver) (tag : Bool) : Bytes :=
  (if tag then buf ++ [Gen.sem_tagPrefix] else buf)
    ++ dec v.major ++ [46] ++ dec v.minor ++ [46] ++ dec v.patch
    ++ (if v.pre.isEmpty then [] else 45 :: v.pre)
    ++ (if v.build.isEmpty then [] else 43 :: v.build)

/-- `f & FormatTag != 0` -/
def isTag (f : Nat) : Bool := f &&& Gen.sem_FormatTag != 0

/-- `formatByVerb`: the switch table extracted from the source -/
def flagsByVerb (verb : Nat) : Nat :=
  match Gen.sem_verbs.find? (fun e => e.1 == verb) with
  | some e => e.2.getD 0
  | none => Gen.sem_verbDefault.getD 0

/-- `MarshalText`, `String` (both `Formatter(nil, v, 0)`), `StringTag` and `Format(f, verb)` -/
def marshalText (v : Ver) : Bytes := format [] v (isTag 0)
def toString (v : Ver) : Bytes := format [] v (isTag 0)
def stringTag (v : Ver) : Bytes := format [] v (isTag Gen.sem_FormatTag)
def formatVerb (v : Ver) (verb : Nat) : Bytes := format [] v (isTag (flagsByVerb verb))

/-- `Ver.Valid()` -/
def Ver.valid (v : Ver) : Outcome Unit :=
  if !v.pre.isEmpty && !validPre v.pre then .err .invalidPreRelease
  else if !v.build.isEmpty && !validBuild v.build then .err .invalidBuild
  else .ok ()

/-! ## comparison (F5) -/

/-- `isNumeric`: non-empty and all digits -/
def isNumeric (s : Bytes) : Bool := !s.isEmpty && allDigits s

/-- `comparePreReleaseSuffix(a, b)` -/
def cmpSuffix (a b : Bytes) : Int :=
  if allDigits a && allDigits b then cmpBytes (trimLeft0 a) (trimLeft0 b) else cmpBytes a b

/-- the byte loop of `compareIdentifier` for two non-numeric-vs-non-numeric identifiers -/
def cmpAlnum : Bytes → Bytes → Int
  | [], [] => 0
  | [], _ :: _ => -1
  | _ :: _, [] => 1
  | a :: as, b :: bs => if a = b then cmpAlnum as bs else cmpSuffix (a :: as) (b :: bs)

/-- `compareIdentifier(a, b)` -/
def compareIdentifier (a b : Bytes) : Int :=
  let an := isNumeric a
  let bn := isNumeric b
  if an != bn then (if an then -1 else 1)
  else if an then
    let a' := trimLeft0 a
    let b' := trimLeft0 b
    if a'.length ≠ b'.length then (if a'.length < b'.length then -1 else 1)
    else cmpBytes a' b'
  else cmpAlnum a b

/-- the `strings.Cut` loop of `comparePreRelease` on the two identifier lists -/
def cmpIdents : List Bytes → List Bytes → Int
  | a :: as, b :: bs =>
    let c := compareIdentifier a b
    if c ≠ 0 then c
    else match as, bs with
      | [], [] => 0
      | _ :: _, [] => 1
      | [], _ :: _ => -1
      | _ :: _, _ :: _ => cmpIdents as bs
  | [], [] => 0
  | [], _ :: _ => -1
  | _ :: _, [] => 1

/-- `DefaultComparePreRelease(a, b)` -/
def comparePre (a b : Bytes) : Int :=
  if a.isEmpty then (if b.isEmpty then 0 else 1)
  else if b.isEmpty then -1
  else cmpIdents (splitDot a) (splitDot b)

/-- `v.Compare(w)` -/
def Ver.compare (v w : Ver) : Int :=
  if w.major > v.major then -1 else if w.major < v.major then 1
  else if w.minor > v.minor then -1 else if w.minor < v.minor then 1
  else if w.patch > v.patch then -1 else if w.patch < v.patch then 1
  else comparePre v.pre w.pre

/-- `v.Latest(w)` -/
def Ver.latest (v w : Ver) : Ver := if v.compare w = -1 then w else v

/-- `Compare`, `CompareVersion`, `CompareTag` through entry `e` -/
def compareStr (maxLen : Nat) (e : Entry) (a b : Bytes) : Outcome Int :=
  (parseEntry maxLen e a).bind fun av => (parseEntry maxLen e b).bind fun bv => .ok (av.compare bv)

/-- `Latest`, `LatestVersion`, `LatestTag` -/
def latestStr (maxLen : Nat) (e : Entry) (a b : Bytes) : Outcome Ver :=
  (parseEntry maxLen e a).bind fun av => (parseEntry maxLen e b).bind fun bv => .ok (av.latest bv)

/-- `v.IsZero()`: 0.0.0 with empty pre-release and build -/
def Ver.isZero (v : Ver) : Bool := v.major == 0 && v.minor == 0 && v.patch == 0 && v.pre == [] && v.build == []

/-- `v.Core()`: the version without pre-release and build -/
def Ver.core (v : Ver) : Ver := ⟨v.major, v.minor, v.patch, [], []⟩

/-- `NextMajor/NextMinor/NextPatch`: `bits.Add64` carry → panic -/
def Ver.nextMajor (v : Ver) : Outcome Ver :=
  if v.major + 1 ≥ two64 then .panic else .ok ⟨v.major + 1, 0, 0, [], []⟩
def Ver.nextMinor (v : Ver) : Outcome Ver :=
  if v.minor + 1 ≥ two64 then .panic else .ok ⟨v.major, v.minor + 1, 0, [], []⟩
def Ver.nextPatch (v : Ver) : Outcome Ver :=
  if v.patch + 1 ≥ two64 then .panic else .ok ⟨v.major, v.minor, v.patch + 1, [], []⟩

end U.Sem
