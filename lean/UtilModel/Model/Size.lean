import UtilModel.Model.GoJson
import UtilModel.Gen.Facts
/-!
# Model of package `size` (after fixes F6, F7, F8)
-/
namespace U.Size
open U U.GoJson

def hasFlag (f bit : Nat) : Bool := f &&& bit != 0

/-! ## Shorten and the formatter -/

/-- the loop of `Shorten` over `shortenUnits` -/
def shortenLoop : List Bytes → Nat → Nat × Bytes
  | [], v => (v, Gen.size_shortenLast)
  | u :: us, v =>
    if v &&& Gen.size_shortenMask ≠ 0 then (v, u)
    else shortenLoop us (v >>> Gen.size_shortenShift)

/-- `Size.Shorten()` -/
def shorten (s : Nat) : Nat × Bytes :=
  if s = 0 then (0, Gen.size_Byte) else shortenLoop Gen.size_shortenUnits s

/-- `appendSeparator` -/
def separator (f : Nat) : Bytes :=
  if !hasFlag f Gen.size_FormatPretty then []
  else if !hasFlag f Gen.size_FormatHTML then Gen.size_sepPlain
  else Gen.size_sepHTML

/-- the digit loop of `DefaultFormatter`: index `i`, `offset = 3 - len % 3` -/
def groupLoop (sep : Bytes) (offset : Nat) : Bytes → Nat → Bytes
  | [], _ => []
  | d :: ds, i =>
    (if (i + offset) % 3 = 2 then d :: sep else [d]) ++ groupLoop sep offset ds (i + 1)

/-- `DefaultFormatter(buf, s, f)` -/
def format (buf : Bytes) (s f : Nat) : Bytes :=
  let (value, unit) := shorten s
  let b := dec value
  buf ++ groupLoop (separator f) (3 - b.length % 3) b 0 ++ unit

/-- `String`, `PrettyString`, `PrettyHTML`, `BytesString` / `BytesJSONNumber` -/
def toString (s : Nat) : Bytes := format [] s 0
def prettyString (s : Nat) : Bytes := format [] s Gen.size_FormatPretty
def prettyHTML (s : Nat) : Bytes := format [] s (Gen.size_FormatPretty ||| Gen.size_FormatHTML)
def bytesString (s : Nat) : Bytes := dec s

structure MarshalCfg where
  disableTextUnit : Bool
  disableJSONString : Bool
  disableJSONObject : Bool
  deriving DecidableEq, Repr

/-- `Size.marshalText()` -/
def marshalText (c : MarshalCfg) (s : Nat) : Bytes :=
  if c.disableTextUnit then dec s else format [] s 0

/-- `Size.marshalJSONObject()` -/
def marshalJSONObject (s : Nat) : Bytes :=
  let (value, unit) := shorten s
  Gen.size_jsonObjOpen ++ dec value ++ Gen.size_jsonObjMid ++ unit ++ Gen.size_jsonObjClose

/-- `Size.MarshalJSON()` -/
def marshalJSON (c : MarshalCfg) (s : Nat) : Bytes :=
  if !c.disableJSONObject then marshalJSONObject s
  else if !c.disableJSONString then 34 :: marshalText c s ++ [34]
  else dec s

/-! ## arithmetic -/

def lookupUnit (u : Bytes) : Option Nat :=
  match Gen.size_unitToValues.find? (fun e => e.1 == u) with
  | some e => some e.2
  | none => none

/-- `newSize(value, unit)` for a `uint64` value -/
def newSize (value : Nat) (unit : Bytes) : Outcome Nat :=
  if value = 0 then
    (if Gen.size_zeroUnits.contains unit then .ok 0 else .err .invalidUnit)
  else if unit.isEmpty then .ok value
  else match lookupUnit unit with
    | none => .err .invalidUnit
    | some n => if value * n ≥ two64 then .err .invalidValue else .ok (value * n)

/-- a numeric argument of `New[N]`: an integer, or a float given exactly as `m · 2^e` -/
inductive Num where
  | int (v : Int)
  | nan
  | inf (neg : Bool)
  | fin (m : Int) (e : Int)
  deriving DecidableEq, Repr

/-- exact value of a finite float as a non-negative integer below 2^64, if it is one -/
def finToNat (m e : Int) : Option Nat :=
  if m < 0 then none
  else if e ≥ 0 then
    let v := m.toNat * 2 ^ e.toNat
    if v < two64 then some v else none
  else
    let d := 2 ^ (-e).toNat
    if m.toNat % d = 0 then (let v := m.toNat / d; if v < two64 then some v else none) else none

/-- `newSize[N](value, unit)` for every numeric kind -/
def newSizeNum (value : Num) (unit : Bytes) : Outcome Nat :=
  match value with
  | .int v => if v < 0 then .err .invalidValue else newSize v.toNat unit
  | .nan => .err .invalidValue
  | .inf _ => .err .invalidValue
  | .fin m e =>
    if m = 0 then newSize 0 unit
    else match finToNat m e with
      | none => .err .invalidValue
      | some v => newSize v unit

/-! ## text parser -/

/-- `strings.TrimRight(s, " ")` (F8) -/
def trimRightSp (s : Bytes) : Bytes := (s.reverse.dropWhile (· == 32)).reverse

/-- `prepareNumber`: rune loop; only space, `_`, U+00A0 (`C2 A0`) and ASCII digits are special -/
def prepareNumber : Bytes → Bytes → Bytes × Bytes
  | [], n => (n.reverse, [])
  | c :: t, n =>
    if c = 32 then prepareNumber t n
    else if !n.isEmpty && c = 95 then prepareNumber t n
    else if isDigit c then prepareNumber t (c :: n)
    else match t with
      | c1 :: t' =>
        if !n.isEmpty && c = 0xC2 && c1 = 0xA0 then prepareNumber t' n
        else (n.reverse, trimRightSp (c :: t))
      | [] => (n.reverse, trimRightSp (c :: t))

/-- `unmarshalText(input, r)` -/
def unmarshalText (disableUnit : Bool) (s : Bytes) : Outcome Nat :=
  let (number, unit) := prepareNumber s []
  if number.isEmpty then .err .invalid
  else if val number ≥ two64 then .err .numRange
  else if unit.isEmpty then .ok (val number)
  else if disableUnit then .err .unitDisabled
  else newSize (val number) unit

/-! ## JSON parser -/

def jerr : JErr → Err
  | .syntax => .jsonSyntax
  | .eof => .jsonEOF
  | .unexpectedEOF => .jsonUnexpectedEOF

/-- `strings.ToLower` restricted to what can produce an ASCII key: ASCII letters and U+0130 (`C4 B0`) ↦ `i` -/
def lowerKey : Bytes → Bytes
  | 0xC4 :: 0xB0 :: t => 105 :: lowerKey t
  | c :: t => toLowerAscii c :: lowerKey t
  | [] => []

/-- `strconv.ParseUint(n.String(), 10, 64)` on a JSON number literal -/
def parseUintLit (lit : Bytes) : Outcome Nat :=
  if lit.isEmpty || !allDigits lit then .err .numSyntax
  else if val lit ≥ two64 then .err .numRange
  else .ok (val lit)

/-- `decodeValue` -/
def decodeValue (d : Dec) : Outcome (Nat × Dec) :=
  match d.token with
  | .error e => .err (jerr e)
  | .ok (.num lit, d') => (parseUintLit lit).map (·, d')
  | .ok _ => .err .invalidType

/-- `decodeUnit` -/
def decodeUnit (d : Dec) : Outcome (Bytes × Dec) :=
  match d.token with
  | .error e => .err (jerr e)
  | .ok (.str s, d') => .ok (s, d')
  | .ok _ => .err .invalidType

/-- the depth loop of `decodeAndSkipNested` (fuel: one token per iteration) -/
def skipLoop : Nat → Nat → Dec → Outcome Dec
  | 0, _, _ => .err .jsonSyntax
  | f + 1, depth, d =>
    match d.token with
    | .error e => .err (jerr e)
    | .ok (t, d') =>
      let depth' : Int := match t with
        | .delim c => if c == 123 || c == 91 then depth + 1 else (depth : Int) - 1
        | _ => depth
      if depth' = 0 then .ok d' else skipLoop f depth'.toNat d'

/-- `decodeAndSkipNested` -/
def decodeAndSkipNested (d : Dec) : Outcome Dec :=
  match d.token with
  | .error e => .err (jerr e)
  | .ok (.delim _, d') => skipLoop (d'.rest.length + 1) 1 d'
  | .ok (_, d') => .ok d'

/-- `newOrError` -/
def newOrError (value : Option Nat) (unit : Option Bytes) : Outcome Nat :=
  match value, unit with
  | none, _ => .err .missingValue
  | some _, none => .err .missingUnit
  | some v, some u => newSize v u

/-- the member loop of `unmarshalJSONObject` (F7); returns the size and the decoder state -/
def objectLoop (maxKeys : Nat) (disallowUnknown : Bool) :
    Nat → Nat → Dec → Option Nat → Option Bytes → Outcome (Nat × Dec)
  | 0, _, _, _, _ => .err .jsonSyntax
  | f + 1, i, d, value, unit =>
    if maxKeys ≠ 0 ∧ i > maxKeys then .err .tooBig
    else if !d.more then (newOrError value unit).map (·, d)
    else match d.token with
      | .error e => .err (jerr e)
      | .ok (.str key, d1) =>
        let k := lowerKey key
        if k == Gen.size_ObjectKeyValue then
          if value.isSome then .err .dupValue
          else match decodeValue d1 with
            | .ok (v, d2) => objectLoop maxKeys disallowUnknown f (i + 1) d2 (some v) unit
            | .err e => .err e
            | .panic => .panic
        else if k == Gen.size_ObjectKeyUnit then
          if unit.isSome then .err .dupUnit
          else match decodeUnit d1 with
            | .ok (u, d2) => objectLoop maxKeys disallowUnknown f (i + 1) d2 value (some u)
            | .err e => .err e
            | .panic => .panic
        else if disallowUnknown then .err .unexpectedKey
        else match decodeAndSkipNested d1 with
          | .ok d2 => objectLoop maxKeys disallowUnknown f (i + 1) d2 value unit
          | .err e => .err e
          | .panic => .panic
      | .ok _ => .panic   -- `t.(string)` on a non-string token

/-- `expectEOF` (F6) -/
def expectEOF (d : Dec) : Outcome Unit :=
  match d.token with
  | .error .eof => .ok ()
  | .error e => .err (jerr e)
  | .ok _ => .err .unexpectedData

structure Rule where
  disableUnit : Bool
  jsonString : Bool
  jsonObject : Bool
  disallowUnknown : Bool
  deriving DecidableEq, Repr

def Rule.ofNat (r : Nat) : Rule :=
  ⟨hasFlag r Gen.size_RuleDisableUnit, hasFlag r Gen.size_RuleEnableJSONStringForm,
   hasFlag r Gen.size_RuleEnableJSONObjectForm, hasFlag r Gen.size_RuleDisallowUnknownKeys⟩

/-- `unmarshalJSON(input, r)` -/
def unmarshalJSON (maxKeys : Nat) (r : Rule) (s : Bytes) : Outcome Nat :=
  match (Dec.init s).token with
  | .error e => .err (jerr e)
  | .ok (.delim c, d) =>
    if c != 123 then .err .expectedObject
    else if !r.jsonObject then .err .objectDisabled
    else match objectLoop maxKeys r.disallowUnknown (s.length + 2) 0 d none none with
      | .err e => .err e
      | .panic => .panic
      | .ok (size, d1) =>
        match d1.token with
        | .error .eof => .err .unexpectedData
        | .error e => .err (jerr e)
        | .ok (.delim 125, d2) => (expectEOF d2).map fun _ => size
        | .ok _ => .err .unexpectedData
  | .ok (.num lit, d) => (expectEOF d).bind fun _ => unmarshalText false lit
  | .ok (.str str, d) =>
    if !r.jsonString then .err .stringDisabled
    else (expectEOF d).bind fun _ => unmarshalText false str
  | .ok _ => .err .invalidType

/-- `DefaultParser(input, r)` -/
def parse (maxLen maxKeys : Nat) (r : Rule) (s : Bytes) : Outcome Nat :=
  if maxLen ≠ 0 ∧ s.length > maxLen then .err .tooLong
  else if r.jsonString || r.jsonObject then unmarshalJSON maxKeys r s
  else unmarshalText r.disableUnit s

/-! ## `Bytes[N]` -/

inductive Kind where
  | int | int8 | int16 | int32 | int64 | uint | uint8 | uint16 | uint32 | uint64 | float32 | float64
  deriving DecidableEq, Repr

def Kind.maxInt : Kind → Nat
  | .int => 2^63 - 1 | .int8 => 127 | .int16 => 32767 | .int32 => 2147483647 | .int64 => 2^63 - 1
  | .uint => 2^64 - 1 | .uint8 => 255 | .uint16 => 65535 | .uint32 => 4294967295 | .uint64 => 2^64 - 1
  | .float32 | .float64 => 0

/-- number of binary digits -/
def bitLen (n : Nat) : Nat := Nat.log2 n + (if n = 0 then 0 else 1)

/-- round `n` to `p` significant bits, ties to even -/
def roundToBits (p n : Nat) : Nat :=
  let l := bitLen n
  if l ≤ p then n
  else
    let sh := l - p
    let q := n >>> sh
    let r := n % 2 ^ sh
    let half := 2 ^ (sh - 1)
    let q' := if r > half || (r == half && q % 2 == 1) then q + 1 else q
    q' <<< sh

/-- `Bytes[N](s)`: `(value, ok)`; float conversions of values ≥ 2^64 give 2^63 (amd64) -/
def bytesAs (k : Kind) (s : Nat) : Nat × Bool :=
  match k with
  | .float32 | .float64 =>
    let p := if k = .float32 then 24 else 53
    let f := roundToBits p s
    let back := if f ≥ two64 then 2 ^ 63 else f
    if s = back then (f, true) else (0, false)
  | _ => if s ≤ k.maxInt then (s, true) else (0, false)

end U.Size
