import UtilModel.Model.Date
import UtilModel.Model.Roman
import UtilModel.Model.Sem
import UtilModel.Model.Size
import UtilModel.Model.UU
/-!
# EXTRA — exported behaviour outside the twenty properties

This file extends the package models with the parts of the public API that none of C01–C20 speaks
about (see DESIGN.md §9.5). It only *adds* definitions; nothing of the existing models is changed, and
`Props/EXTRA.lean` proves that with the default formatter / parser the new functions reduce to the
existing ones (conservative extension).

1. `sem`: `New`, `Ver.Core`, `Ver.IsZero`, `ZeroString`, `ZeroStringTag`;
2. `date`: `Year`, `Month`, `Day`, `Date`, `Time`, `Value`;
3. the package-level `Formatter` / `Parser` variables of date, roman, sem, size, uu: every entry point
   that reads them, for an arbitrary replacement function;
4. `constraint` / `internal`: `IsFloat`, `IsSigned`, `Min`, `Max`, `SmallestNonzero`, `SizeBytes`,
   `SizeBits` per numeric kind.
-/
namespace U

/-! ## 1. sem -/
namespace Sem

/-- `New(major, minor, patch, preReleaseAndBuild...)`: zero, one or two extra strings; more panic -/
def new (major minor patch : Nat) (extra : List Bytes) : Outcome Ver :=
  match extra with
  | [] => .ok ⟨major, minor, patch, [], []⟩
  | [p] => .ok ⟨major, minor, patch, p, []⟩
  | [p, b] => .ok ⟨major, minor, patch, p, b⟩
  | _ :: _ :: _ :: _ => .panic

-- `Ver.Core()` and `Ver.IsZero()` are `Sem.Ver.core` / `Sem.Ver.isZero` of `Model/Sem.lean` (tied to the source by
-- `C14.latest_code_tie`)

/-- the constants `ZeroString` = "0.0.0" and `ZeroStringTag` = "v0.0.0" -/
def zeroString : Bytes := [48, 46, 48, 46, 48]
def zeroStringTag : Bytes := [118, 48, 46, 48, 46, 48]

end Sem

/-! ## 2. date -/
namespace Date
open GoTime

/-- `Year()`: `int(d.year + 1)` in `int32` arithmetic -/
def Date.yearOf (d : Date) : Int := wrap32 (d.year + 1)
/-- `Month()`: `Month(d.month + 1)` in `uint8` arithmetic -/
def Date.monthOf (d : Date) : Nat := (d.month + 1) % 256
/-- `Day()`: `int(d.day + 1)` in `uint8` arithmetic -/
def Date.dayOf (d : Date) : Nat := (d.day + 1) % 256

/-- `Time()`: the instant `time.Date(Year(), Month(), Day(), 0, 0, 0, 0, UTC)` as seconds since
    0001-01-01T00:00:00Z (nanoseconds are zero, the location is UTC) -/
def Date.timeAbs (d : Date) : Int :=
  (ordinalNorm d.yearOf d.monthOf d.dayOf - 1) * 86400

/-- `Time().Date()`: the calendar fields the instant reads back as -/
def Date.timeCivil (d : Date) : Int × Nat × Int :=
  civil (d.timeAbs / 86400 + 1)

/-- `Value()` (database/sql/driver): the same instant, and a nil error -/
def Date.value (d : Date) : Outcome Int := .ok d.timeAbs

end Date

/-! ## 3. the `Formatter` and `Parser` variables -/
namespace Extra

/-- what a formatter call `Formatter(buf, v, f)` returns: bytes, or an error value (identified by a tag) -/
inductive FOut where
  | ok (b : Bytes) | err (tag : Nat)
  deriving DecidableEq, Repr

/-- result of an entry point that reads `Formatter`: text, the (wrapped) error of the formatter, or a panic -/
inductive Res where
  | ok (b : Bytes) | err (tag : Nat) | panic
  deriving DecidableEq, Repr

/-- a function that can be stored in a package's `Formatter` variable: `(buf, value, flags) ↦ outcome` -/
abbrev Fmt (V : Type) := Bytes → V → Nat → FOut

def FOut.toRes : FOut → Res
  | .ok b => .ok b | .err t => .err t

/-- an error coming out of a parser variable: one of the library's own classes, or a foreign error value -/
inductive XErr where
  | lib (e : Err) | custom (tag : Nat)
  deriving DecidableEq, Repr

/-- what a parser call `Parser(data, rule)` does -/
inductive POut (V : Type) where
  | ok (v : V) | err (e : XErr) | panic
  deriving DecidableEq, Repr

/-- result of `UnmarshalText` / `UnmarshalJSON` -/
inductive PRes where
  | ok | err (e : XErr) | panic
  deriving DecidableEq, Repr

/-- a function that can be stored in a package's `Parser` variable: `(data, rule) ↦ outcome` -/
abbrev Prs (V : Type) := Bytes → Nat → POut V

def POut.ofOutcome {V} : Outcome V → POut V
  | .ok v => .ok v | .err e => .err (.lib e) | .panic => .panic

/-- `v, err := Parser(data, r); if err != nil { return wrapped }; *recv = v; return nil`:
    the receiver after the call and the call's result -/
def assign {V} (recv : V) : POut V → V × PRes
  | .ok v => (v, .ok)
  | .err e => (recv, .err e)
  | .panic => (recv, .panic)

/-- the common `format(f)` method: the variable's result, `DefaultFormatter`'s when it errs -/
def orDefault {V} (F D : Fmt V) (v : V) (f : Nat) : Bytes :=
  match F [] v f with
  | .ok b => b
  | .err _ => match D [] v f with
    | .ok b => b
    | .err _ => []

end Extra

namespace Date
open Extra

/-- `DefaultFormatter` / `DefaultParser[[]byte]` as values of the variables -/
def defaultFmt : Fmt Date := fun buf d f => .ok (format buf d (isBasic f))
def defaultPrs : Prs Date := fun s r => .ofOutcome (parse Gen.date_MaxInputLength (ruleDisableBasic r) s)

/-- `Date.format(f)`, `String()`, `MarshalText()`, `Format(state, verb)` with `Formatter = F` -/
def formatWith (F : Fmt Date) (d : Date) (f : Nat) : Bytes := orDefault F defaultFmt d f
def stringWith (F : Fmt Date) (d : Date) : Bytes := formatWith F d 0
def marshalTextWith (F : Fmt Date) (d : Date) : Res := (F [] d 0).toRes
def formatVerbWith (F : Fmt Date) (d : Date) (verb : Nat) : Bytes := formatWith F d (flagsByVerb verb)

/-- `(*Date).UnmarshalText(data)` with `Parser = P` -/
def unmarshalTextWith (P : Prs Date) (recv : Date) (data : Bytes) : Date × PRes := assign recv (P data 0)

end Date

namespace Roman
open Extra

def defaultFmt : Fmt Nat := fun buf n f => .ok (format buf n f)
def defaultPrs : Prs Nat := fun s r => .ofOutcome (parse Gen.roman_MaxInputLength (r % 2 == 1) s)

/-- `df` is the package variable `DefaultFormat` -/
def formatWith (F : Fmt Nat) (n f : Nat) : Bytes := orDefault F defaultFmt n f
def stringWith (F : Fmt Nat) (df n : Nat) : Bytes := formatWith F n df
def marshalTextWith (F : Fmt Nat) (df n : Nat) : Res := (F [] n df).toRes
def formatVerbWith (F : Fmt Nat) (df n verb : Nat) : Bytes := formatWith F n (flagsByVerb verb df)

def unmarshalTextWith (P : Prs Nat) (recv : Nat) (data : Bytes) : Nat × PRes := assign recv (P data 0)

end Roman

namespace Sem
open Extra

def defaultFmt : Fmt Ver := fun buf v f => .ok (format buf v (isTag f))
def defaultPrs : Prs Ver := fun s r =>
  .ofOutcome (parseEntry Gen.sem_MaxInputLength (if r &&& Gen.sem_RuleDisableTag != 0 then .defaultNoTag else .default) s)

def formatWith (F : Fmt Ver) (v : Ver) (f : Nat) : Bytes := orDefault F defaultFmt v f
def stringWith (F : Fmt Ver) (v : Ver) : Bytes := formatWith F v 0
def stringTagWith (F : Fmt Ver) (v : Ver) : Bytes := formatWith F v Gen.sem_FormatTag
def marshalTextWith (F : Fmt Ver) (v : Ver) : Res := (F [] v 0).toRes
def formatVerbWith (F : Fmt Ver) (v : Ver) (verb : Nat) : Bytes := formatWith F v (flagsByVerb verb)

def unmarshalTextWith (P : Prs Ver) (recv : Ver) (data : Bytes) : Ver × PRes := assign recv (P data 0)

end Sem

namespace UU
open Extra

def defaultFmt : Fmt ID := fun buf i f => .ok (format buf i (isURN f))
def defaultPrs : Prs ID := fun s r =>
  .ofOutcome (parse Gen.uu_MaxInputLength (ruleDisableURN r) (ruleDisableUpper r) s)

def formatWith (F : Fmt ID) (i : ID) (f : Nat) : Bytes := orDefault F defaultFmt i f
def stringWith (F : Fmt ID) (i : ID) : Bytes := formatWith F i 0
def marshalTextWith (F : Fmt ID) (i : ID) : Res := (F [] i 0).toRes
def formatVerbWith (F : Fmt ID) (i : ID) (verb : Nat) : Bytes := formatWith F i (flagsByVerb verb)
/-- `URN()` calls `DefaultFormatter` directly: the variable plays no part -/
def urnWith (_ : Fmt ID) (i : ID) : Bytes := i.urn

def unmarshalTextWith (P : Prs ID) (recv : ID) (data : Bytes) : ID × PRes := assign recv (P data 0)

end UU

namespace Size
open Extra

def defaultFmt : Fmt Nat := fun buf s f => .ok (format buf s f)
def defaultPrs : Prs Nat := fun s r =>
  .ofOutcome (parse Gen.size_MaxInputLength Gen.size_MaxObjectKeys (Rule.ofNat r) s)

/-- `String()`: the plain byte count when the formatter errs -/
def stringWith (F : Fmt Nat) (s : Nat) : Bytes :=
  match F [] s 0 with
  | .ok b => b
  | .err _ => dec s

/-- `PrettyString()` / `PrettyHTML()`: a formatter error is a panic -/
def prettyWith (F : Fmt Nat) (s flags : Nat) : Res :=
  match F [] s flags with
  | .ok b => .ok b
  | .err _ => .panic
def prettyStringWith (F : Fmt Nat) (s : Nat) : Res := prettyWith F s Gen.size_FormatPretty
def prettyHTMLWith (F : Fmt Nat) (s : Nat) : Res := prettyWith F s (Gen.size_FormatPretty ||| Gen.size_FormatHTML)

/-- `Size.marshalText()` / `MarshalText()` -/
def marshalTextWith (c : MarshalCfg) (F : Fmt Nat) (s : Nat) : Res :=
  if c.disableTextUnit then .ok (dec s) else (F [] s 0).toRes

/-- `MarshalJSON()`: only the string form reads the formatter -/
def marshalJSONWith (c : MarshalCfg) (F : Fmt Nat) (s : Nat) : Res :=
  if !c.disableJSONObject then .ok (marshalJSONObject s)
  else if !c.disableJSONString then
    match marshalTextWith c F s with
    | .ok b => .ok (34 :: b ++ [34])
    | .err t => .err t
    | .panic => .panic
  else .ok (dec s)

/-- `UnmarshalText`: `Parser(data, DefaultRule & ruleUnmarshalTextMask)`; `dr` is the variable `DefaultRule` -/
def unmarshalTextWith (P : Prs Nat) (dr recv : Nat) (data : Bytes) : Nat × PRes :=
  assign recv (P data (dr &&& Gen.size_ruleUnmarshalTextMask))
/-- `UnmarshalJSON`: `Parser(data, DefaultRule)` -/
def unmarshalJSONWith (P : Prs Nat) (dr recv : Nat) (data : Bytes) : Nat × PRes :=
  assign recv (P data dr)

end Size

/-! ### scripted replacements (what the driver and the harness install in the variables) -/
namespace Extra

/-- when a scripted replacement returns its error: never, always, iff the flags/rule argument is zero,
    iff it is non-zero (so that the argument every entry point passes is observable) -/
def errsOn (mode arg : Nat) : Bool :=
  match mode with
  | 0 => false
  | 1 => true
  | 2 => arg == 0
  | _ => arg != 0

structure Script where
  out : Bytes
  mode : Nat
  tag : Nat
  deriving DecidableEq, Repr

/-- scripted formatter: appends `out` and the decimal flags to the buffer, or fails with error `tag` -/
def Script.fmt {V} (s : Script) : Fmt V := fun buf _ f =>
  if errsOn s.mode f then .err s.tag else .ok (buf ++ s.out ++ dec f)

structure PScript (V : Type) where
  val : V
  mode : Nat
  tag : Nat

/-- scripted parser: returns `val` (numeric types: plus `1000·rule + len(data)`), or fails with error `tag` -/
def PScript.prs {V} (s : PScript V) : Prs V := fun _ r =>
  if errsOn s.mode r then .err (.custom s.tag) else .ok s.val

def PScript.prsNat (s : PScript Nat) : Prs Nat := fun data r =>
  if errsOn s.mode r then .err (.custom s.tag) else .ok ((s.val + 1000 * r + data.length) % two64)

end Extra

/-! ## 4. constraint / internal -/
namespace Constraint
open Size (Kind)

/-- a numeric constant: an integer, or the float `m · 2^e` (canonical: `m` odd) -/
inductive NumVal where
  | int (v : Int) | flt (m : Int) (e : Int)
  deriving DecidableEq, Repr

def isFloat : Kind → Bool
  | .float32 | .float64 => true
  | _ => false

def isSigned : Kind → Bool
  | .int | .int8 | .int16 | .int32 | .int64 | .float32 | .float64 => true
  | _ => false

/-- `SizeBytes[N]()` on a 64-bit platform -/
def sizeBytes : Kind → Nat
  | .int | .uint | .int64 | .uint64 | .float64 => 8
  | .int32 | .uint32 | .float32 => 4
  | .int16 | .uint16 => 2
  | .int8 | .uint8 => 1

def sizeBits (k : Kind) : Nat := sizeBytes k * 8

/-- `math.MaxFloat32` = (2^24 − 1)·2^104, `math.MaxFloat64` = (2^53 − 1)·2^971 -/
def maxF32m : Int := 16777215
def maxF64m : Int := 9007199254740991

def max : Kind → NumVal
  | .int => .int 9223372036854775807 | .int8 => .int 127 | .int16 => .int 32767
  | .int32 => .int 2147483647 | .int64 => .int 9223372036854775807
  | .uint => .int 18446744073709551615 | .uint8 => .int 255 | .uint16 => .int 65535
  | .uint32 => .int 4294967295 | .uint64 => .int 18446744073709551615
  | .float32 => .flt maxF32m 104 | .float64 => .flt maxF64m 971

def min : Kind → NumVal
  | .int => .int (-9223372036854775808) | .int8 => .int (-128) | .int16 => .int (-32768)
  | .int32 => .int (-2147483648) | .int64 => .int (-9223372036854775808)
  | .uint | .uint8 | .uint16 | .uint32 | .uint64 => .int 0
  | .float32 => .flt (-maxF32m) 104 | .float64 => .flt (-maxF64m) 971

/-- `math.SmallestNonzeroFloat32` = 2^-149, `math.SmallestNonzeroFloat64` = 2^-1074 -/
def smallestNonzero : Kind → NumVal
  | .float32 => .flt 1 (-149) | .float64 => .flt 1 (-1074)
  | _ => .int 1

/-- exact comparison of two constants: both scaled to the smaller exponent -/
def NumVal.mant : NumVal → Int
  | .int v => v | .flt m _ => m
def NumVal.exp : NumVal → Int
  | .int _ => 0 | .flt _ e => e
def NumVal.scaled (x : NumVal) (e0 : Int) : Int := x.mant * ((2 ^ (x.exp - e0).toNat : Nat) : Int)
def NumVal.le (a b : NumVal) : Bool :=
  let e0 := if a.exp ≤ b.exp then a.exp else b.exp
  decide (a.scaled e0 ≤ b.scaled e0)
def NumVal.lt (a b : NumVal) : Bool := a.le b && !b.le a
def NumVal.zero : NumVal := .int 0

end Constraint

-- ---------------------------------------------------------------------------------------- error messages (errors.go of every package)
/- The `Error()` text of the parse-error types (`date/sem/uu/size.ParseError`, `roman.NumberFormatError`) and the
"input too long" cause the parsers wrap. `%q` (strconv.Quote) is modelled for ASCII bytes; inputs with a byte ≥ 128 are
outside the model (`quoteModelled`). -/
namespace ErrMsg

inductive Pkg where | date | sem | roman | uu | size
  deriving DecidableEq, Repr

def Pkg.name : Pkg → Bytes
  | .date => [100, 97, 116, 101] | .sem => [115, 101, 109] | .roman => [114, 111, 109, 97, 110] | .uu => [117, 117] | .size => [115, 105, 122, 101]

/-- the text used when `Err` is nil -/
def Pkg.fallback : Pkg → Bytes
  | .date => [105, 110, 118, 97, 108, 105, 100, 32, 100, 97, 116, 101] | .sem => [105, 110, 118, 97, 108, 105, 100, 32, 118, 101, 114, 115, 105, 111, 110] | .roman => [105, 110, 118, 97, 108, 105, 100, 32, 114, 111, 109, 97, 110, 32, 110, 117, 109, 98, 101, 114]
  | .uu => [105, 110, 118, 97, 108, 105, 100, 32, 102, 111, 114, 109, 97, 116] | .size => [117, 110, 97, 98, 108, 101, 32, 116, 111, 32, 112, 97, 114, 115, 101]

/-- size says `parsing "…"`, the others quote the input directly -/
def Pkg.lead : Pkg → Bytes
  | .size => [112, 97, 114, 115, 105, 110, 103, 32] | _ => []

def hex2 (c : Nat) : Bytes := [hexDigit (c / 16), hexDigit (c % 16)]

/-- strconv.Quote on one ASCII byte -/
def quoteByte (c : Nat) : Bytes :=
  if c = 34 then [92, 34] else if c = 92 then [92, 92]
  else if c = 7 then [92, 97] else if c = 8 then [92, 98] else if c = 12 then [92, 102]
  else if c = 10 then [92, 110] else if c = 13 then [92, 114] else if c = 9 then [92, 116] else if c = 11 then [92, 118]
  else if c < 32 ∨ c = 127 then 92 :: 120 :: hex2 c
  else [c]

def quoteBody : Bytes → Bytes
  | [] => []
  | c :: s => quoteByte c ++ quoteBody s

def quote (s : Bytes) : Bytes := 34 :: (quoteBody s ++ [34])

def quoteModelled (s : Bytes) : Bool := s.all (fun c => decide (c < 128))

def sep : Bytes := [58, 32]

/-- `(*ParseError).Error()`: `err = none` is a nil `Err`, `some t` an `Err` whose own text is `t` -/
def message (p : Pkg) (fn input : Bytes) (err : Option Bytes) : Bytes :=
  let e := match err with | some t => t | none => p.fallback
  if input.length = 0 then p.name ++ 46 :: fn ++ sep ++ e
  else p.name ++ 46 :: fn ++ sep ++ p.lead ++ quote input ++ sep ++ e

/-- `fmt.Errorf("%w: %d > %d", ErrInputTooLong, l, MaxInputLength)` -/
def tooLongText (l max : Nat) : Bytes := [105, 110, 112, 117, 116, 32, 116, 111, 111, 32, 108, 111, 110, 103, 58, 32] ++ dec l ++ [32, 62, 32] ++ dec max

/-- the error of a parser whose input exceeds the limit: built from the zero value of the input type and the two lengths -/
def tooLongMessage (p : Pkg) (fn input : Bytes) (max : Nat) : Bytes :=
  message p fn [] (some (tooLongText input.length max))

/-- the receiver type whose `UnmarshalText` wraps the parser's error -/
def Pkg.typeName : Pkg → Bytes
  | .date => [68, 97, 116, 101] | .sem => [86, 101, 114] | .roman => [78, 117, 109, 98, 101, 114] | .uu => [73, 68] | .size => [83, 105, 122, 101]

/-- `fmt.Errorf("<pkg>.<Type>.UnmarshalText: %w", err)` around the parser's error text -/
def unmarshalTextWrap (p : Pkg) (inner : Bytes) : Bytes :=
  p.name ++ 46 :: p.typeName ++ [46, 85, 110, 109, 97, 114, 115, 104, 97, 108, 84, 101, 120, 116, 58, 32] ++ inner

/-- what `UnmarshalText` returns for an input longer than the limit (`fn` = the parser's function name) -/
def unmarshalTextTooLong (p : Pkg) (fn input : Bytes) (max : Nat) : Bytes :=
  unmarshalTextWrap p (tooLongMessage p fn input max)

-- `uu.InvalidDigitError(byte).Error()`
def hexDigitUpper (n : Nat) : Nat := if n < 10 then 48 + n else 55 + n

/-- `%U` of a byte: `U+00XX` -/
def codePoint (c : Nat) : Bytes := [85, 43, 48, 48, hexDigitUpper (c / 16), hexDigitUpper (c % 16)]

/-- `unicode.IsGraphic(rune(c))` for `c < 256`: printable ASCII and Latin-1 from U+00A0 except the soft hyphen U+00AD -/
def isGraphicByte (c : Nat) : Bool := (32 ≤ c && c ≤ 126) || (160 ≤ c && c ≤ 255 && c != 173)

/-- `%c` of `rune(c)` for `c < 256` in UTF-8 -/
def utf8Latin1 (c : Nat) : Bytes := if c < 128 then [c] else [192 + c / 64, 128 + c % 64]

def invalidDigitText (c : Nat) : Bytes :=
  if isGraphicByte c then [105, 110, 118, 97, 108, 105, 100, 32, 100, 105, 103, 105, 116, 32, 39] ++ utf8Latin1 c ++ [39, 32, 40] ++ codePoint c ++ [41]
  else [105, 110, 118, 97, 108, 105, 100, 32, 100, 105, 103, 105, 116, 32] ++ codePoint c

end ErrMsg

end U
