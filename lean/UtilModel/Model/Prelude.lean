/-!
# Prelude: bytes, outcomes, decimal and hexadecimal codecs

Byte strings are `List Nat` (plain `Nat`, no alias for the element type: with an alias numeric
literals elaborate at the alias and `omega` no longer recognises them). Go `string` and `[]byte`
share this model type.
-/
namespace U

abbrev Bytes := List Nat

/-- error classes of all packages; the harness maps Go errors to the same names with `errors.Is/As` -/
inductive Err where
  | invalid | tooLong
  -- date
  | basicDisabled | invalidLength | unsupportedVersion | invalidDate | invalidType | invalidFromOrTo
  -- sem
  | tagNotAllowed | expectedTag | invalidMajor | invalidMinor | invalidPatch | invalidPreRelease | invalidBuild
  -- size
  | numRange | numSyntax | unitDisabled | invalidUnit | invalidValue | expectedObject | objectDisabled
  | stringDisabled | missingValue | missingUnit | dupValue | dupUnit | unexpectedKey | tooBig | jsonSyntax | jsonEOF
  | jsonUnexpectedEOF | unexpectedData
  -- uu
  | urnDisabled | invalidDigit (b : Nat)
  deriving DecidableEq, Repr

def Err.name : Err → String
  | .invalid => "invalid" | .tooLong => "tooLong"
  | .basicDisabled => "basicDisabled" | .invalidLength => "invalidLength"
  | .unsupportedVersion => "unsupportedVersion" | .invalidDate => "invalidDate"
  | .invalidType => "invalidType" | .invalidFromOrTo => "invalidFromOrTo"
  | .tagNotAllowed => "tagNotAllowed" | .expectedTag => "expectedTag"
  | .invalidMajor => "invalidMajor" | .invalidMinor => "invalidMinor" | .invalidPatch => "invalidPatch"
  | .invalidPreRelease => "invalidPreRelease" | .invalidBuild => "invalidBuild"
  | .numRange => "numRange" | .numSyntax => "numSyntax" | .unitDisabled => "unitDisabled"
  | .invalidUnit => "invalidUnit" | .invalidValue => "invalidValue" | .expectedObject => "expectedObject"
  | .objectDisabled => "objectDisabled" | .stringDisabled => "stringDisabled"
  | .missingValue => "missingValue" | .missingUnit => "missingUnit" | .dupValue => "dupValue"
  | .dupUnit => "dupUnit" | .unexpectedKey => "unexpectedKey" | .tooBig => "tooBig"
  | .jsonSyntax => "jsonSyntax" | .jsonEOF => "jsonEOF" | .jsonUnexpectedEOF => "jsonUnexpectedEOF"
  | .unexpectedData => "unexpectedData"
  | .urnDisabled => "urnDisabled" | .invalidDigit b => s!"invalidDigit:{b}"

/-- result of a Go call: a value, a classified error, or a run-time panic (index out of range …) -/
inductive Outcome (α : Type) where
  | ok (a : α) | err (e : Err) | panic
  deriving DecidableEq, Repr

def Outcome.isOk {α} : Outcome α → Bool
  | .ok _ => true | _ => false

def Outcome.map {α β} (f : α → β) : Outcome α → Outcome β
  | .ok a => .ok (f a) | .err e => .err e | .panic => .panic

def Outcome.bind {α β} (o : Outcome α) (f : α → Outcome β) : Outcome β :=
  match o with
  | .ok a => f a | .err e => .err e | .panic => .panic

/-! ## character classes -/

def isDigit (c : Nat) : Bool := 48 ≤ c && c ≤ 57
def isUpper (c : Nat) : Bool := 65 ≤ c && c ≤ 90
def isLower (c : Nat) : Bool := 97 ≤ c && c ≤ 122
def isLetter (c : Nat) : Bool := isUpper c || isLower c
def allDigits (s : Bytes) : Bool := s.all isDigit

def two64 : Nat := 18446744073709551616

/-! ## decimal -/

/-- value of a digit string (no validation), most significant first -/
def ofDigits : Bytes → Nat → Nat
  | [], acc => acc
  | c :: cs, acc => ofDigits cs (acc * 10 + (c - 48))

def val (s : Bytes) : Nat := ofDigits s 0

/-- fixed-width big-endian decimal digits of n (its low `w` digits) -/
def fixed : Nat → Nat → Bytes
  | 0, _ => []
  | w + 1, n => fixed w (n / 10) ++ [48 + n % 10]

/-- number of decimal digits of `n` (1 for 0), with fuel -/
def ndigitsF : Nat → Nat → Nat
  | 0, _ => 0
  | f + 1, n => if n < 10 then 1 else 1 + ndigitsF f (n / 10)

/-- number of decimal digits; fuel `n + 1` always suffices -/
def ndigits (n : Nat) : Nat := ndigitsF (n + 1) n

/-- `strconv.AppendUint(nil, n, 10)` / `%d` of a non-negative number -/
def dec (n : Nat) : Bytes := fixed (ndigits n) n

/-- `%0Wd` of a non-negative number -/
def padDec (w n : Nat) : Bytes := fixed (max w (ndigits n)) n

/-- `%0Wd` of an integer: the sign counts towards the width -/
def padDecInt (w : Nat) (n : Int) : Bytes :=
  if n < 0 then 45 :: padDec (w - 1) n.natAbs else padDec w n.toNat

/-! ## hexadecimal -/

def hexDigit (n : Nat) : Nat := if n < 10 then 48 + n else 87 + n

/-- fixed-width lower-case hex of n (low `w` nibbles) -/
def fixedHex : Nat → Nat → Bytes
  | 0, _ => []
  | w + 1, n => fixedHex w (n / 16) ++ [hexDigit (n % 16)]

def nhexF : Nat → Nat → Nat
  | 0, _ => 0
  | f + 1, n => if n < 16 then 1 else 1 + nhexF f (n / 16)

def nhex (n : Nat) : Nat := nhexF (n + 1) n

/-- `%0Wx` of a non-negative number -/
def padHex (w n : Nat) : Bytes := fixedHex (max w (nhex n)) n

/-! ## small list helpers -/

def toLowerAscii (c : Nat) : Nat := if isUpper c then c + 32 else c
def toUpperAscii (c : Nat) : Nat := if isLower c then c - 32 else c

/-- `strings.TrimLeft(s, "0")` -/
def trimLeft0 : Bytes → Bytes
  | 48 :: t => trimLeft0 t
  | s => s

/-- Go `strings.Compare` on byte strings: -1, 0, 1 -/
def cmpBytes : Bytes → Bytes → Int
  | [], [] => 0
  | [], _ :: _ => -1
  | _ :: _, [] => 1
  | a :: as, b :: bs => if a < b then -1 else if b < a then 1 else cmpBytes as bs

end U
