import UtilModel.Model.TestKit
/-!
# When is a test case *satisfied*? (specification for C20, written from the property text)
-/
namespace U.TestKit
open U

/-- does the error predicate hold of the error the call produced? -/
def predHolds (p : Pred) (e : ErrV) : Bool :=
  match p with
  | .none => true
  | .any => !e.isNil
  | .eq t => match e with | .text m => m == t | _ => false
  | .pre t => !e.isNil && isPrefixOf t e.known
  | .suf t => match e with | .text m => isPrefixOf t.reverse m.reverse | _ => false
  | .re compiles hit => !e.isNil && compiles && hit

def hooksPass (c : Case) : Bool := !hookFails c.before && !hookFails c.after

/-- marshal direction: hooks pass; without an error predicate no error and equal data; with one, an
error meeting it and no result alongside it -/
def satisfiedM (binary : Bool) (c : Case) : Bool :=
  hooksPass c &&
    (let r := marshalResult c.mbeh
     match c.pred with
     | .none => r.2.isNil && dataEqual binary c.data r.1
     | p => !r.2.isNil && predHolds p r.2 && r.1.isNone)

/-! With a custom `TypeHelper` the *helper's verdict* replaces the built-in comparison and emptiness
check, and the receiver the unmarshaler works on is the one the helper's `New` made. The helper is
part of the scripted input, so its three methods (`HelperBeh.new/assertEmpty/assertEqual`) are used
as given; what the specification fixes is **what they are asked**: `New` about the case's value,
`AssertEqual` about (expected := the case's value, actual := the receiver), `AssertEmpty` about the receiver. -/

/-- the receiver before the call: a zero value, or what the custom helper's `New(c.Value)` returns -/
def freshValue (hb : Option HelperBeh) (c : Case) : Int :=
  match hb with
  | none => 0
  | some b => b.new c.value

/-- the receiver after the call: what the unmarshaler stored, else the fresh value untouched -/
def received (hb : Option HelperBeh) (c : Case) : Int :=
  match unmarshalStored c.ubeh with
  | some x => x
  | none => freshValue hb c

/-- is `actual` the expected value? nil helper: equality; custom helper: its `AssertEqual(expected, actual)` does not complain -/
def valueAccepted (hb : Option HelperBeh) (expected actual : Int) : Bool :=
  match hb with
  | none => actual == expected
  | some b => !b.assertEqual expected actual

/-- is the receiver empty? nil helper: zero value; custom helper: its `AssertEmpty` does not complain -/
def emptyAccepted (hb : Option HelperBeh) (v : Int) : Bool :=
  match hb with
  | none => v == 0
  | some b => !b.assertEmpty v

/-- unmarshal direction: hooks pass; without a predicate no error and the expected value; with one, an
error meeting it and the receiver left empty — "expected value" and "empty" as judged by the helper -/
def satisfiedU (hb : Option HelperBeh) (c : Case) : Bool :=
  hooksPass c &&
    (let e := unmarshalErr c.ubeh
     match c.pred with
     | .none => e.isNil && valueAccepted hb c.value (received hb c)
     | p => !e.isNil && predHolds p e && emptyAccepted hb (received hb c))

/-- the shape of known finding K1: `ErrorMatch` with a pattern that compiles, a non-nil error, no match -/
def k1Shape (c : Case) (e : ErrV) : Bool :=
  match c.pred with
  | .re true false => !e.isNil
  | _ => false

def applicable (h : Helper) (c : Case) : Bool :=
  if h.isMarshal then isForMarshal c.constraint else isForUnmarshal c.constraint

/-- `hb` is the `TypeHelper` handed to an Unmarshal helper (`none` = nil); Marshal helpers have none -/
def satisfied (h : Helper) (hb : Option HelperBeh) (c : Case) : Bool :=
  if h.isMarshal then satisfiedM h.isBinary c else satisfiedU hb c

def k1 (h : Helper) (c : Case) : Bool :=
  hooksPass c &&
    (if h.isMarshal then k1Shape c (marshalResult c.mbeh).2 else k1Shape c (unmarshalErr c.ubeh))

/-! ## cases completed by their hooks

The hooks are handed the case so that they can complete it. The case the helper has to judge is the literal
case with, field by field, the last thing a *present* hook wrote into `Data`, `Value` and `Error`
(`After` writes after `Before`; `After` does not write `Value`); a `Constraint` written by a hook is not part
of it: the direction was decided before any hook ran. -/

/-- the last write wins: `After`'s if it is present and wrote, else `Before`'s if it is present and wrote, else the literal -/
def lastWrite {α : Type} (hasB hasA : Bool) (b a : Option α) (literal : α) : α :=
  match (if hasA then a else Option.none) with
  | some v => v
  | Option.none =>
    match (if hasB then b else Option.none) with
    | some v => v
    | Option.none => literal

def XCase.completed (x : XCase) : Case :=
  let hasB := x.base.before != .nil
  let hasA := x.base.after != .nil
  { x.base with
    data := lastWrite hasB hasA x.before.data x.after.data x.base.data
    value := lastWrite hasB false x.before.value Option.none x.base.value
    pred := lastWrite hasB hasA x.before.pred x.after.pred x.base.pred }

end U.TestKit
