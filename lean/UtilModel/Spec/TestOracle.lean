import UtilModel.Model.TestKit
/-!
# When is a test case *satisfied*? (specification for C20, written from the property text)
-/
namespace U.TestKit
open U

/-- does the error predicate hold of the error the call produced? -/
def predHolds (p : Pred) (e : ErrV) : Bool :=
  match p with
  | .none => true
  | .any => !e.isNil
  | .eq t => match e with | .text m => m == t | _ => false
  | .pre t => !e.isNil && isPrefixOf t e.known
  | .suf t => match e with | .text m => isPrefixOf t.reverse m.reverse | _ => false
  | .re compiles hit => !e.isNil && compiles && hit

def hooksPass (c : Case) : Bool := !hookFails c.before && !hookFails c.after

/-- marshal direction: hooks pass; without an error predicate no error and equal data; with one, an
error meeting it and no result alongside it -/
def satisfiedM (binary : Bool) (c : Case) : Bool :=
  hooksPass c &&
    (let r := marshalResult c.mbeh
     match c.pred with
     | .none => r.2.isNil && dataEqual binary c.data r.1
     | p => !r.2.isNil && predHolds p r.2 && r.1.isNone)

/-- unmarshal direction: hooks pass; without a predicate no error and the expected value; with one, an
error meeting it and the receiver left empty -/
def satisfiedU (c : Case) : Bool :=
  hooksPass c &&
    (let r := unmarshalResult c.ubeh
     match c.pred with
     | .none => r.2.isNil && r.1 == c.value
     | p => !r.2.isNil && predHolds p r.2 && r.1 == 0)

/-- the shape of known finding K1: `ErrorMatch` with a pattern that compiles, a non-nil error, no match -/
def k1Shape (c : Case) (e : ErrV) : Bool :=
  match c.pred with
  | .re true false => !e.isNil
  | _ => false

def applicable (h : Helper) (c : Case) : Bool :=
  if h.isMarshal then isForMarshal c.constraint else isForUnmarshal c.constraint

def satisfied (h : Helper) (c : Case) : Bool :=
  if h.isMarshal then satisfiedM h.isBinary c else satisfiedU c

def k1 (h : Helper) (c : Case) : Bool :=
  hooksPass c &&
    (if h.isMarshal then k1Shape c (marshalResult c.mbeh).2 else k1Shape c (unmarshalResult c.ubeh).2)

end U.TestKit
