import UtilModel.Model.Sem
import UtilModel.Lemmas.SemNumeric
/-! # Specification of SemVer 2.0.0 §11 precedence, and the excluded departure (C06) -/
namespace U.Props.C06
open U U.Sem

/-! ## Specification: SemVer 2.0.0 §11 on byte strings -/

/-- an identifier is numeric when it is a non-empty run of digits -/
def isNum (s : Bytes) : Bool := !s.isEmpty && allDigits s

/-- §11.4.1–11.4.3 on one pair of identifiers: numeric ones by value, numeric below alphanumeric,
alphanumeric ones in ASCII (byte) order -/
def specIdent (a b : Bytes) : Int :=
  if isNum a && isNum b then cmpNat (val a) (val b)
  else if isNum a then -1
  else if isNum b then 1
  else cmpBytes a b

/-- §11.4: identifiers left to right; §11.4.4: a longer list above its own prefix -/
def specIdents : List Bytes → List Bytes → Int
  | [], [] => 0
  | [], _ :: _ => -1
  | _ :: _, [] => 1
  | a :: as, b :: bs => if specIdent a b ≠ 0 then specIdent a b else specIdents as bs

/-- §11.3: a release (empty pre-release) ranks above any pre-release -/
def specPre (a b : Bytes) : Int :=
  if a.isEmpty then (if b.isEmpty then 0 else 1)
  else if b.isEmpty then -1
  else specIdents (splitDot a) (splitDot b)

/-- §11.2: major, minor, patch numerically; then the pre-release rule; build metadata ignored -/
def specCmp (v w : Ver) : Int :=
  if v.major ≠ w.major then cmpNat v.major w.major
  else if v.minor ≠ w.minor then cmpNat v.minor w.minor
  else if v.patch ≠ w.patch then cmpNat v.patch w.patch
  else specPre v.pre w.pre

/-- strip the common prefix of two byte strings -/
def stripCommon : Bytes → Bytes → Bytes × Bytes
  | a :: as, b :: bs => if a = b then stripCommon as bs else (a :: as, b :: bs)
  | as, bs => (as, bs)

/-- the deliberate departure: both identifiers alphanumeric, and after their common prefix both
remainders are non-empty runs of digits (`a01` vs `a1`, `a2` vs `a11`) -/
def excludedIdent (a b : Bytes) : Bool :=
  !isNum a && !isNum b &&
    (let r := stripCommon a b
     !r.1.isEmpty && !r.2.isEmpty && allDigits r.1 && allDigits r.2)

/-- … at the first pair of identifiers that differ (pairs that differ only by leading zeros of a
numeric identifier — impossible in valid versions — are skipped like equal ones) -/
def excludedIdents : List Bytes → List Bytes → Bool
  | a :: as, b :: bs =>
    if a = b then excludedIdents as bs
    else excludedIdent a b || (specIdent a b == 0 && excludedIdents as bs)
  | _, _ => false

def Excluded (a b : Bytes) : Bool := excludedIdents (splitDot a) (splitDot b)

end U.Props.C06
