import UtilModel.Model.Prelude
/-!
# Specification for C08: unit multipliers and the text form of a size

Nothing here refers to the model of package `size` (`U.Size.*`) or to the generated tables: the unit
multipliers are written out by hand from the property text (`kB..EB = 1000^k`, `KiB..EiB = 1024^k`,
`B = 1`), and the accepted texts are described by a rendering function
```
text  ::= sp* digit (Sep* digit)* Sep* unit sp*
Sep   ::= " " | "_" | U+00A0 (bytes C2 A0)
```
where `unit` is empty or a byte string at which the number scanner must stop (`UnitOk`).
-/
namespace U.Props.C08
open U

/-- multiplier of a unit name: `B`, `kB … EB` (powers of 1000), `KiB … EiB` (powers of 1024) -/
def mult : Bytes → Option Nat
  | [66] => some 1                        -- B
  | [107, 66] => some 1000                -- kB
  | [77, 66] => some (1000 ^ 2)           -- MB
  | [71, 66] => some (1000 ^ 3)           -- GB
  | [84, 66] => some (1000 ^ 4)           -- TB
  | [80, 66] => some (1000 ^ 5)           -- PB
  | [69, 66] => some (1000 ^ 6)           -- EB
  | [75, 105, 66] => some 1024            -- KiB
  | [77, 105, 66] => some (1024 ^ 2)      -- MiB
  | [71, 105, 66] => some (1024 ^ 3)      -- GiB
  | [84, 105, 66] => some (1024 ^ 4)      -- TiB
  | [80, 105, 66] => some (1024 ^ 5)      -- PiB
  | [69, 105, 66] => some (1024 ^ 6)      -- EiB
  | _ => none

/-- the thirteen unit names that have a multiplier -/
def unitNames : List Bytes :=
  [[66], [107, 66], [77, 66], [71, 66], [84, 66], [80, 66], [69, 66],
   [75, 105, 66], [77, 105, 66], [71, 105, 66], [84, 105, 66], [80, 105, 66], [69, 105, 66]]

/-- units whose multiplier does not fit 64 bits: ZB, YB, ZiB, YiB -/
def bigUnits : List Bytes := [[90, 66], [89, 66], [90, 105, 66], [89, 105, 66]]

/-- the finite float `m · 2^e` (integers `m`, `e`) is exactly the integer `v`, `0 ≤ v < 2^64`;
stated without division: for a negative exponent `m = v · 2^(-e)` -/
def Denotes (m e : Int) (v : Nat) : Prop :=
  0 ≤ m ∧ v < 2 ^ 64 ∧
    ((0 ≤ e ∧ v = m.toNat * 2 ^ e.toNat) ∨ (e < 0 ∧ m.toNat = v * 2 ^ (-e).toNat))

/-- ASCII digit -/
def Digit (c : Nat) : Prop := 48 ≤ c ∧ c ≤ 57

instance : DecidablePred Digit := fun c => inferInstanceAs (Decidable (48 ≤ c ∧ c ≤ 57))

/-- separators allowed between digits and before the unit -/
inductive Sep where
  | sp | us | nbsp
  deriving DecidableEq, Repr

def Sep.bytes : Sep → Bytes
  | .sp => [32]
  | .us => [95]
  | .nbsp => [0xC2, 0xA0]

/-- digits, each followed by any separators -/
def body (ds : List (Nat × List Sep)) : Bytes :=
  ds.flatMap fun p => p.1 :: p.2.flatMap Sep.bytes

/-- `lead` spaces, the digits with their separators, the unit, `trail` spaces -/
def render (lead : Nat) (ds : List (Nat × List Sep)) (unit : Bytes) (trail : Nat) : Bytes :=
  List.replicate lead 32 ++ body ds ++ unit ++ List.replicate trail 32

/-- the digit string of a rendering -/
def digitsOf (ds : List (Nat × List Sep)) : Bytes := ds.map (·.1)

/-- a unit text: empty, or a string the number scanner stops at — it does not begin with a space,
a digit, `_` or U+00A0 — and that does not end with a space -/
def UnitOk (u : Bytes) : Prop :=
  u.head? ≠ some 32 ∧ u.head? ≠ some 95 ∧ (∀ c, u.head? = some c → ¬ Digit c) ∧
  ¬ ([0xC2, 0xA0] <+: u) ∧ u.getLast? ≠ some 32

/-- side conditions of a rendering: at least one digit, all of them digits, an admissible unit -/
def WellFormed (ds : List (Nat × List Sep)) (unit : Bytes) : Prop :=
  ds ≠ [] ∧ (∀ p ∈ ds, Digit p.1) ∧ UnitOk unit

/-- `s` is exactly representable with a `p`-bit binary significand (float32: 24, float64: 53; the
exponent range is no restriction below 2^64) -/
def Representable (p s : Nat) : Prop := ∃ m e, m < 2 ^ p ∧ s = m * 2 ^ e

end U.Props.C08
