import UtilModel.Model.Size
/-!
# Specification for C12: the JSON object form of a size, abstractly

An object is a list of members in source order; a member is its key (decoded text) and what the
reader can see of its value: a number literal, a decoded string, or anything else (`true`, `false`,
`null`, arrays and objects of any nesting). `evalMembers` is the documented behaviour of
`unmarshalJSONObject` on such a list: keys compare case-insensitively (`strings.ToLower`, modelled by
`Size.lowerKey`) with `value` and `unit`, the number is read by `strconv.ParseUint`
(`Size.parseUintLit`), the pair is multiplied out by `Size.newSize`.

The second half describes concrete JSON text for member lists (`renderObject`), used to relate the
executable model of the parser to `evalMembers`.
-/
namespace U.Props.C12
open U

/-- what the object reader distinguishes about a member value -/
inductive MVal where
  | num (lit : Bytes)   -- a JSON number, as literal text (`UseNumber`)
  | str (s : Bytes)     -- a JSON string, decoded
  | other               -- `true`, `false`, `null`, an array or an object
  deriving DecidableEq, Repr

/-- key (decoded text) and value -/
abbrev Member := Bytes × MVal

/-- `"value"` -/
def keyValue : Bytes := [118, 97, 108, 117, 101]
/-- `"unit"` -/
def keyUnit : Bytes := [117, 110, 105, 116]

inductive Kind where
  | value | unit | unknown
  deriving DecidableEq, Repr

/-- which member a key names, case-insensitively -/
def kind (m : Member) : Kind :=
  if Size.lowerKey m.1 = keyValue then .value
  else if Size.lowerKey m.1 = keyUnit then .unit
  else .unknown

/-- one member: the value and unit seen so far, updated or an error -/
def step (disallowUnknown : Bool) (v : Option Nat) (u : Option Bytes) (m : Member) :
    Outcome (Option Nat × Option Bytes) :=
  match kind m with
  | .value =>
    if v.isSome then .err .dupValue
    else match m.2 with
      | .num lit => (Size.parseUintLit lit).map fun n => (some n, u)
      | _ => .err .invalidType
  | .unit =>
    if u.isSome then .err .dupUnit
    else match m.2 with
      | .str s => .ok (v, some s)
      | _ => .err .invalidType
  | .unknown => if disallowUnknown then .err .unexpectedKey else .ok (v, u)

/-- after the last member -/
def finish (v : Option Nat) (u : Option Bytes) : Outcome Nat :=
  match v, u with
  | none, _ => .err .missingValue
  | some _, none => .err .missingUnit
  | some n, some s => Size.newSize n s

/-- members from index `i` on. The key limit is checked at the top of every round, including the one
that finds the end of the object. -/
def evalLoop (maxKeys : Nat) (disallowUnknown : Bool) :
    Nat → Option Nat → Option Bytes → List Member → Outcome Nat
  | i, v, u, [] => if maxKeys ≠ 0 ∧ i > maxKeys then .err .tooBig else finish v u
  | i, v, u, m :: ms =>
    if maxKeys ≠ 0 ∧ i > maxKeys then .err .tooBig
    else match step disallowUnknown v u m with
      | .ok (v', u') => evalLoop maxKeys disallowUnknown (i + 1) v' u' ms
      | .err e => .err e
      | .panic => .panic

/-- the size denoted by an object with members `ms` (`maxKeys = 0`: no limit) -/
def evalMembers (maxKeys : Nat) (disallowUnknown : Bool) (ms : List Member) : Outcome Nat :=
  evalLoop maxKeys disallowUnknown 0 none none ms

/-! ## order-free description -/

def vals (ms : List Member) : List Member := ms.filter fun m => kind m = .value
def units (ms : List Member) : List Member := ms.filter fun m => kind m = .unit
def unknowns (ms : List Member) : List Member := ms.filter fun m => kind m = .unknown

/-- the members denote `z`: within the key limit, exactly one `value` member holding an unsigned
64-bit decimal, exactly one `unit` member holding a string, other members only if allowed, and the
product is representable. Nothing here depends on the order of `ms`. -/
def Denotes (maxKeys : Nat) (disallowUnknown : Bool) (ms : List Member) (z : Nat) : Prop :=
  (maxKeys = 0 ∨ ms.length ≤ maxKeys) ∧
  (disallowUnknown = true → unknowns ms = []) ∧
  ∃ kv lit n ku s, vals ms = [(kv, .num lit)] ∧ Size.parseUintLit lit = .ok n ∧
    units ms = [(ku, .str s)] ∧ Size.newSize n s = .ok z

/-- everything that makes an object unacceptable -/
inductive Defect (maxKeys : Nat) (disallowUnknown : Bool) (ms : List Member) : Prop where
  | tooManyMembers (h0 : maxKeys ≠ 0) (h : ms.length > maxKeys)
  | duplicateValue (h : (vals ms).length ≥ 2)
  | duplicateUnit (h : (units ms).length ≥ 2)
  | missingValue (h : vals ms = [])
  | missingUnit (h : units ms = [])
  | valueNotNumber (m : Member) (hm : m ∈ vals ms) (h : ∀ lit, m.2 ≠ .num lit)
  | valueNotUint (k lit : Bytes) (e : Err) (hm : (k, .num lit) ∈ vals ms) (h : Size.parseUintLit lit = .err e)
  | unitNotString (m : Member) (hm : m ∈ units ms) (h : ∀ s, m.2 ≠ .str s)
  | unknownKey (h : disallowUnknown = true) (m : Member) (hm : m ∈ unknowns ms)
  | arithmetic (kv lit : Bytes) (n : Nat) (ku s : Bytes) (e : Err) (hv : (kv, .num lit) ∈ vals ms)
      (hn : Size.parseUintLit lit = .ok n) (hu : (ku, .str s) ∈ units ms) (h : Size.newSize n s = .err e)

/-- the members of `ms` read in this order without the key limit: the value and unit found, or the
first error -/
def runSteps (disallowUnknown : Bool) : Option Nat → Option Bytes → List Member → Outcome (Option Nat × Option Bytes)
  | v, u, [] => .ok (v, u)
  | v, u, m :: ms =>
    match step disallowUnknown v u m with
    | .ok (v', u') => runSteps disallowUnknown v' u' ms
    | .err e => .err e
    | .panic => .panic

/-! ## exactly one value -/

/-- only JSON white space -/
def allSpace (s : Bytes) : Bool := s.all GoJson.isSpace

/-- the input left in the decoder after `unmarshalJSON` has read the value and, for an object, its
closing brace; `none` if the value is not read to its end -/
def restAfterValue (mk : Nat) (r : Size.Rule) (s : Bytes) : Option Bytes :=
  match (GoJson.Dec.init s).token with
  | .error _ => none
  | .ok (.delim c, d) =>
    if c != 123 then none
    else match Size.objectLoop mk r.disallowUnknown (s.length + 2) 0 d none none with
      | .ok (_, d1) =>
        match d1.token with
        | .ok (.delim 125, d2) => some d2.rest
        | _ => none
      | _ => none
  | .ok (_, d) => some d.rest

/-! ## concrete JSON text

A small JSON document type and its compact rendering (single-byte separators, no white space).
Numbers are integer literals, strings and keys are made of bytes that stand for themselves in a
string literal; arrays and objects nest arbitrarily. -/

/-- a byte that stands for itself inside a JSON string literal: printable ASCII except `"` and `\` -/
def plainByte (c : Nat) : Bool := 32 ≤ c && c < 128 && c != 34 && c != 92

def plain (s : Bytes) : Bool := s.all plainByte

/-- `0`, or a digit string without leading zero -/
def digitsLit (ds : Bytes) : Bool :=
  match ds with
  | [] => false
  | [48] => true
  | c :: t => c != 48 && isDigit c && allDigits t

/-- a JSON integer literal: optional `-`, then `0` or a digit string without leading zero -/
def intLit (lit : Bytes) : Bool :=
  match lit with
  | 45 :: t => digitsLit t
  | _ => digitsLit lit

inductive JVal where
  | num (lit : Bytes)
  | str (s : Bytes)
  | tru | fls | null
  | arr (xs : List JVal)
  | obj (ms : List (Bytes × JVal))

/-- what the object reader sees of a value -/
def JVal.abs : JVal → MVal
  | .num lit => .num lit
  | .str s => .str s
  | _ => .other

mutual
/-- JSON text of a value -/
def JVal.render : JVal → Bytes
  | .num lit => lit
  | .str s => 34 :: (s ++ [34])
  | .tru => [116, 114, 117, 101]
  | .fls => [102, 97, 108, 115, 101]
  | .null => [110, 117, 108, 108]
  | .arr xs => 91 :: (renderElems xs ++ [93])
  | .obj ms => 123 :: (renderMembers ms ++ [125])
/-- `x1,x2,…` -/
def renderElems : List JVal → Bytes
  | [] => []
  | x :: xs => x.render ++ renderElemsTail xs
/-- `,x1,x2…` -/
def renderElemsTail : List JVal → Bytes
  | [] => []
  | x :: xs => 44 :: (x.render ++ renderElemsTail xs)
/-- `"k1":x1,"k2":x2,…` -/
def renderMembers : List (Bytes × JVal) → Bytes
  | [] => []
  | (k, x) :: ms => 34 :: (k ++ 34 :: 58 :: (x.render ++ renderMembersTail ms))
/-- `,"k1":x1,"k2":x2…` -/
def renderMembersTail : List (Bytes × JVal) → Bytes
  | [] => []
  | (k, x) :: ms => 44 :: 34 :: (k ++ 34 :: 58 :: (x.render ++ renderMembersTail ms))
end

mutual
/-- the document is within the fragment described above -/
def JVal.wf : JVal → Bool
  | .num lit => intLit lit
  | .str s => plain s
  | .tru => true
  | .fls => true
  | .null => true
  | .arr xs => wfElems xs
  | .obj ms => wfMembers ms
def wfElems : List JVal → Bool
  | [] => true
  | x :: xs => x.wf && wfElems xs
def wfMembers : List (Bytes × JVal) → Bool
  | [] => true
  | (k, x) :: ms => plain k && x.wf && wfMembers ms
end

/-- `{"k1":x1,…}` -/
def renderObject (ms : List (Bytes × JVal)) : Bytes := 123 :: (renderMembers ms ++ [125])

/-- the abstract member list of a concrete one -/
def absMembers (ms : List (Bytes × JVal)) : List Member := ms.map fun m => (m.1, m.2.abs)

end U.Props.C12
