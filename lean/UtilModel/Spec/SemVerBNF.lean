import UtilModel.Model.Prelude
/-!
# Specification: the SemVer 2.0.0 grammar (semver.org, "Backus–Naur Form Grammar for Valid SemVer
Versions") as declarative predicates on byte strings

Nothing here refers to the scanner functions of the model (`Sem.cut`, `Sem.splitDot`, `Sem.shape`, …):
the predicates are stated with list membership, `++` and a separate joining function only.

```
<valid semver>  ::= <version core> | <version core> "-" <pre-release> | <version core> "+" <build>
                  | <version core> "-" <pre-release> "+" <build>
<version core>  ::= <major> "." <minor> "." <patch>            (three <numeric identifier>s)
<pre-release>   ::= <dot-separated pre-release identifiers>
<build>         ::= <dot-separated build identifiers>
<pre-release identifier> ::= <alphanumeric identifier> | <numeric identifier>
<build identifier>       ::= <alphanumeric identifier> | <digits>
<alphanumeric identifier>: identifier characters `[0-9A-Za-z-]` with at least one non-digit
<numeric identifier>     ::= "0" | <positive digit> | <positive digit> <digits>
```
-/
namespace U.Props.C03
open U

/-- `<digit>` : `0`–`9` -/
def Digit (c : Nat) : Prop := 48 ≤ c ∧ c ≤ 57
/-- `<positive digit>` : `1`–`9` -/
def PosDigit (c : Nat) : Prop := 49 ≤ c ∧ c ≤ 57
/-- `<letter>` : `A`–`Z`, `a`–`z` -/
def Letter (c : Nat) : Prop := (65 ≤ c ∧ c ≤ 90) ∨ (97 ≤ c ∧ c ≤ 122)
/-- `<identifier character>` : digit, letter or `-` -/
def IdentChar (c : Nat) : Prop := Digit c ∨ Letter c ∨ c = 45

/-- `<numeric identifier>` : `0`, or a positive digit followed by digits -/
def NumId (s : Bytes) : Prop := s = [48] ∨ ∃ c t, s = c :: t ∧ PosDigit c ∧ ∀ d ∈ t, Digit d

/-- `<pre-release identifier>` : a non-empty run of identifier characters which, when it consists of
digits only, is a numeric identifier (no leading zero) -/
def PreId (s : Bytes) : Prop := s ≠ [] ∧ (∀ c ∈ s, IdentChar c) ∧ ((∀ c ∈ s, Digit c) → NumId s)

/-- `<build identifier>` : a non-empty run of identifier characters -/
def BuildId (s : Bytes) : Prop := s ≠ [] ∧ ∀ c ∈ s, IdentChar c

/-- the identifiers written one after the other with a single `.` (46) between neighbours -/
def joinDots : List Bytes → Bytes
  | [] => []
  | [a] => a
  | a :: b :: r => a ++ 46 :: joinDots (b :: r)

/-- `<dot-separated P identifiers>` : a non-empty list of `P`-identifiers joined by single dots -/
def DotList (P : Bytes → Prop) (s : Bytes) : Prop :=
  ∃ ids : List Bytes, ids ≠ [] ∧ (∀ i ∈ ids, P i) ∧ s = joinDots ids

/-- `s` is a valid SemVer text whose parts are the three number texts `ma`, `mi`, `pa`, the optional
pre-release text `pre?` (after `-`) and the optional build text `build?` (after `+`) -/
def Parts (s ma mi pa : Bytes) (pre? build? : Option Bytes) : Prop :=
  NumId ma ∧ NumId mi ∧ NumId pa ∧
  (∀ p, pre? = some p → DotList PreId p) ∧ (∀ b, build? = some b → DotList BuildId b) ∧
  s = ma ++ [46] ++ mi ++ [46] ++ pa
      ++ (match pre? with | some p => 45 :: p | none => [])
      ++ (match build? with | some b => 43 :: b | none => [])

/-- `<valid semver>` -/
def SemVer (s : Bytes) : Prop := ∃ ma mi pa pre? build?, Parts s ma mi pa pre? build?

/-- the text after an optional leading `v` (118) -/
def body (s : Bytes) : Bytes := if s.head? = some 118 then s.drop 1 else s

end U.Props.C03
